//go:build verif

package obfs4

import (
	"bytes"

	"gitlab.com/yawning/obfs4.git/common/drbg"
	"gitlab.com/yawning/obfs4.git/common/probdist"

	"gitlab.com/yawning/obfs4.git/internal/verifrt"
	"gitlab.com/yawning/obfs4.git/transports/obfs4/framing"
)

// VerifC09PadBurst: lemma B1 – the burst padding arithmetic for every
// (buffered length, target) pair.
func VerifC09PadBurst() {
	maxQ := verifrt.Param("max_bursts")
	q := verifrt.IntRange("q", 0, maxQ)
	r := verifrt.IntRange("r", 0, framing.MaximumSegmentLength-1)
	target := verifrt.IntRange("target", 0, framing.MaximumSegmentLength)
	tail := q*framing.MaximumSegmentLength + r

	key := verifrt.Bytes("key", framing.KeyLength)
	conn := &obfs4Conn{encoder: framing.NewEncoder(key)}
	var burst bytes.Buffer
	burst.Write(verifrt.Bytes("pre", tail))

	before := burst.Len()
	err := conn.padBurst(&burst, target)
	verifrt.Assert(err == nil, "padBurst returns no error")
	added := burst.Len() - before

	// needed padding to end the burst exactly on the target length
	needed := target - r
	if needed < 0 {
		needed += framing.MaximumSegmentLength
	}
	if target == framing.MaximumSegmentLength && r == 0 {
		// target 1448 with an empty tail: one full segment of padding
		needed = framing.MaximumSegmentLength
	}
	switch {
	case needed == 0:
		verifrt.Reach("no padding needed")
		verifrt.Assert(added == 0, "nothing appended when the burst already ends on the target")
	case needed > headerLength:
		verifrt.Reach("one padding frame")
		verifrt.Assert(added == needed, "one frame appended, burst ends on target")
		verifrt.Assert(added <= framing.MaximumSegmentLength, "padding frame <= 1448")
	default:
		verifrt.Reach("two padding frames")
		if needed == headerLength {
			// boundary value: see DESIGN.md section 7 (both readings accepted)
			verifrt.Assert(added == headerLength || added == framing.MaximumSegmentLength+2*headerLength, "needed==21: one empty frame or the two-frame form")
		} else {
			verifrt.Assert(added == framing.MaximumSegmentLength+headerLength+needed, "two frames: a full frame plus a frame of 21+needed bytes")
		}
	}
	verifrt.Reach("end")
}

// VerifC09Paranoid: lemma B3 – paranoid IAT mode: every write handed to the network has
// exactly the (non-zero) sampled length, never more than 1448 bytes, and Write does not panic,
// for arbitrary samples (the opaque distribution returns any value in [0,1448], a superset of
// every seed's table – in particular tables that contain 0).
func VerifC09Paranoid() {
	if !verifrt.Symbolic() {
		nativeParanoidSearch()
		return
	}
	key := verifrt.Bytes("key", framing.KeyLength)
	wire := verifrt.NewConn("wire", nil)
	tx := vEndpoint(wire, true, iatParanoid, key, key)
	var samples []int
	verifrt.OnSample(func(min, max int) int {
		v := verifrt.IntRange("sample", min, max)
		if max == framing.MaximumSegmentLength {
			samples = append(samples, v)
		}
		return v
	})
	n := []int{0, 1, maxPacketPayloadLength + 1}[verifrt.Pick("write_size_class", 0, 2)]
	k, err := tx.Write(verifrt.Bytes("payload", n))
	verifrt.Assert(err == nil && k == n, "Write succeeds")
	verifrt.Reach("write returned")
	checkParanoidWrites(wire, samples)
	verifrt.Reach("end")
}

// every network write is one of the sampled lengths, in order (samples that led to a
// resample because padding needed two frames are skipped), non-zero and <= 1448.
func checkParanoidWrites(wire *verifrt.Conn, samples []int) {
	si := 0
	for _, sz := range wire.WriteSizes {
		verifrt.Assert(sz > 0, "paranoid write is non-empty")
		verifrt.Assert(sz <= framing.MaximumSegmentLength, "paranoid write <= 1448")
		for si < len(samples) && effSample(samples[si]) != sz {
			si++
		}
		verifrt.Assert(si < len(samples), "paranoid write length equals a sampled length")
		si++
	}
}

// a sample of 0 stands for "end on a segment boundary": it is written as one full segment
// (DESIGN.md section 7).
func effSample(s int) int {
	if s == 0 {
		return framing.MaximumSegmentLength
	}
	return s
}

// nativeParanoidSearch is the native replay of B3 counterexamples: the sample values the
// solver chose cannot be forced on the real seeded distribution, so the replay searches the
// real seeds (about 4% have a table containing 0) and writes until the sample is drawn.
func nativeParanoidSearch() {
	key := make([]byte, framing.KeyLength)
	for i := 0; i < 120; i++ {
		var raw [drbg.SeedLength]byte
		raw[0] = byte(i)
		raw[1] = byte(i >> 8)
		seed, _ := drbg.SeedFromBytes(raw[:])
		wire := verifrt.NewConn("wire", nil)
		lenDist := probdist.New(seed, 0, framing.MaximumSegmentLength, false)
		iatDist := probdist.New(seed, 0, maxIATDelay, false)
		tx := &obfs4Conn{wire, true, lenDist, iatDist, iatParanoid, bytes.NewBuffer(nil), bytes.NewBuffer(nil),
			make([]byte, consumeReadSize), framing.NewEncoder(key), framing.NewDecoder(key)}
		msg := verifrt.PanicMsg(func() {
			for w := 0; w < 400; w++ {
				if _, err := tx.Write([]byte{1}); err != nil {
					return
				}
			}
		})
		verifrt.Assert(msg == "", "paranoid-mode Write does not panic (seed "+string(rune('0'+i%10))+"): "+msg)
		for _, sz := range wire.WriteSizes {
			verifrt.Assert(sz > 0 && sz <= framing.MaximumSegmentLength, "paranoid write size in 1..1448")
		}
	}
}
