//go:build verif

package log

import (
	"errors"
	"fmt"
	"net"
	"net/url"
	"os"
	"syscall"

	"gitlab.com/yawning/obfs4.git/internal/verifrt"
)

// Sensitive strings (IP addresses, host names, DNS servers) consist of marker bytes
// 0x01..0x04; every other string field consists of bytes >= 0x20. A leak is a marker
// byte in the output.
func sens(name string) string {
	n := verifrt.IntRange(name+"_len", 1, verifrt.Param("max_str"))
	return verifrt.StringIn(name, n, 0x01, 0x04)
}

func plain(name string) string {
	n := verifrt.IntRange(name+"_len", 0, verifrt.Param("max_str"))
	return verifrt.StringIn(name, n, 0x20, 0x7e)
}

func noMarker(s string) bool {
	if len(s) == 0 {
		return true
	}
	k := verifrt.IntRange("leak_index", 0, len(s)-1) // Skolem index: the solver looks for a leaking byte
	return s[k] >= 0x20
}

func leafError(kind int) error {
	switch kind {
	case 0:
		return &net.AddrError{Err: plain("cause"), Addr: sens("addr")}
	case 1:
		return &net.DNSError{Err: plain("cause"), Name: sens("host"), Server: sens("dnsserver")}
	case 2:
		return net.InvalidAddrError(sens("addr"))
	case 3:
		return net.UnknownNetworkError(sens("net"))
	case 4:
		return errors.New(plain("cause"))
	default:
		return syscall.ECONNREFUSED
	}
}

func wrapError(kind int, inner error, lvl string) error {
	switch kind {
	case 0:
		return inner
	case 1:
		e := &net.OpError{Op: plain("op" + lvl), Net: plain("netw" + lvl), Err: inner}
		if verifrt.Bool("has_addr" + lvl) {
			e.Addr = verifrt.Addr{S: sens("peer" + lvl)}
		}
		if verifrt.Bool("has_source" + lvl) {
			e.Source = verifrt.Addr{S: sens("source" + lvl)}
		}
		return e
	case 2:
		return &url.Error{Op: plain("uop" + lvl), URL: sens("url" + lvl), Err: inner}
	case 3:
		return &os.SyscallError{Syscall: plain("syscall" + lvl), Err: inner}
	default:
		return fmt.Errorf("%s: %w", plain("ctx"+lvl), inner)
	}
}

// VerifC20ElideError: lemma Z1 – with scrubbing enabled no sensitive byte survives, for
// every error shape (leaf x wrapper x wrapper) and all field contents within the bound.
func VerifC20ElideError() {
	unsafeLogging = false
	leaf := verifrt.Pick("leaf", 0, 5)
	w1 := verifrt.Pick("wrap1", 0, 4)
	w2 := verifrt.Pick("wrap2", 0, 4)
	// shapes in which no network error type is involved are outside the claim (their text is
	// returned verbatim by design): require a net error somewhere in the chain.
	err := wrapError(w2, wrapError(w1, leafError(leaf), "1"), "2")
	var ne net.Error
	verifrt.Assume(errors.As(err, &ne))
	out := ElideError(err)
	verifrt.Assert(noMarker(out), "ElideError output contains no address / host name byte")
	verifrt.Reach("end")
}

// VerifC20ElideAddr: lemma Z2.
func VerifC20ElideAddr() {
	unsafeLogging = false
	host := sens("host")
	port := plain("port")
	var s string
	switch verifrt.Pick("form", 0, 2) {
	case 0:
		s = host + ":" + port
	case 1:
		s = "[" + host + "]:" + port
	default:
		s = host
	}
	out := ElideAddr(s)
	verifrt.Assert(noMarker(out), "ElideAddr output contains no host byte")
	verifrt.Assert(len(out) >= len(elidedAddr) && out[:len(elidedAddr)] == elidedAddr, "ElideAddr output starts with [scrubbed]")
	verifrt.Reach("end")
}

// VerifC20Unsafe: lemma Z3 – with unsafe logging the text is unchanged.
func VerifC20Unsafe() {
	unsafeLogging = true
	leaf := verifrt.Pick("leaf", 0, 5)
	w1 := verifrt.Pick("wrap1", 0, 4)
	err := wrapError(w1, leafError(leaf), "1")
	verifrt.Assert(ElideError(err) == err.Error(), "unsafe logging returns the error text unchanged")
	s := sens("host") + ":" + plain("port")
	verifrt.Assert(ElideAddr(s) == s, "unsafe logging returns the address unchanged")
	unsafeLogging = false
	verifrt.Reach("end")
}
