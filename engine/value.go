package main

import (
	"fmt"
	"go/types"

	"golang.org/x/tools/go/ssa"
)

type Value interface{}

// Sel is one step of a pointer path.
type Sel struct {
	kind  int // 0 field, 1 index, 2 window (sub-array of byte array)
	field int
	idx   *Term
	n     int // window length
}

type Obj struct {
	id     int
	val    Value
	name   string
	opaque bool
	typ    types.Type
	global *ssa.Global
	// ghost: mutex state etc.
}

type Ptr struct {
	obj  *Obj
	path []Sel
}

func (p Ptr) IsNil() bool { return p.obj == nil }

func (p Ptr) field(i int) Ptr {
	np := make([]Sel, len(p.path)+1)
	copy(np, p.path)
	np[len(p.path)] = Sel{kind: 0, field: i}
	return Ptr{p.obj, np}
}

func (p Ptr) index(i *Term) Ptr {
	np := make([]Sel, len(p.path)+1)
	copy(np, p.path)
	np[len(p.path)] = Sel{kind: 1, idx: i}
	return Ptr{p.obj, np}
}

func (p Ptr) window(off *Term, n int) Ptr {
	np := make([]Sel, len(p.path)+1)
	copy(np, p.path)
	np[len(p.path)] = Sel{kind: 2, idx: off, n: n}
	return Ptr{p.obj, np}
}

type StructV struct{ fields []Value }
type ArrayV struct{ elems []Value }

// BytesV is the value of a byte array (fixed or dynamically sized backing store).
type BytesV struct {
	node *BNode
	n    *Term // number of bytes (BV64)
}

type SliceV struct {
	base Ptr // pointer to the array value (BytesV or ArrayV); nil obj for nil slice
	off  *Term
	len  *Term
	cap  *Term
}

func (s SliceV) IsNil() bool { return s.base.obj == nil }

type StringV struct {
	node *BNode
	len  *Term
}

type IfaceV struct {
	typ types.Type // nil => nil interface
	val Value
}

type MapEntry struct {
	key Value
	val Value
}

type MapObj struct {
	id      int
	entries []MapEntry
	typ     *types.Map
}

type MapV struct{ m *MapObj }

type ChanObj struct {
	id     int
	buf    []Value
	cap    int
	closed bool
	elem   types.Type
	name   string
}

type ChanV struct{ c *ChanObj }

type FuncV struct {
	fn      *ssa.Function
	bind    []Value
	builtin *ssa.Builtin
}

type TupleV []Value

// ModelObj is an engine-internal object behind an interface or pointer
// (hash states, cipher streams, ...).
type ModelObj struct {
	id    int
	kind  string
	state map[string]Value
	regs  map[string]Region
	terms map[string]*Term
	parts []Region // accumulated regions (hash input)
	inner *ModelObj
	fnv   Value
}

// modelType is the dynamic type of interface values that hold a ModelObj.
type modelType struct{ name string }

func (m *modelType) Underlying() types.Type { return m }
func (m *modelType) String() string         { return "model:" + m.name }

// PanicV is a Go panic in flight.
type PanicV struct {
	val     Value
	msg     string // description (runtime error text or panic string if known)
	runtime bool
	site    string
}

type RangeIter struct {
	isMap   bool
	entries []MapEntry
	str     StringV
	pos     int
}

// ---------- type helpers ----------

func isByte(t types.Type) bool {
	b, ok := t.Underlying().(*types.Basic)
	return ok && (b.Kind() == types.Uint8)
}

func isByteArray(t types.Type) bool {
	a, ok := t.Underlying().(*types.Array)
	return ok && isByte(a.Elem())
}

func isByteSlice(t types.Type) bool {
	s, ok := t.Underlying().(*types.Slice)
	return ok && isByte(s.Elem())
}

func basicWidth(b *types.Basic) int {
	switch b.Kind() {
	case types.Bool, types.UntypedBool:
		return 0
	case types.Int8, types.Uint8:
		return 8
	case types.Int16, types.Uint16:
		return 16
	case types.Int32, types.Uint32, types.UntypedRune:
		return 32
	case types.Int, types.Uint, types.Int64, types.Uint64, types.Uintptr, types.UntypedInt:
		return 64
	}
	return -1
}

func isSigned(t types.Type) bool {
	b, ok := t.Underlying().(*types.Basic)
	if !ok {
		return false
	}
	return b.Info()&types.IsInteger != 0 && b.Info()&types.IsUnsigned == 0
}

func isInteger(t types.Type) bool {
	b, ok := t.Underlying().(*types.Basic)
	return ok && b.Info()&types.IsInteger != 0
}

func isFloat(t types.Type) bool {
	b, ok := t.Underlying().(*types.Basic)
	return ok && b.Info()&types.IsFloat != 0
}

func isString(t types.Type) bool {
	b, ok := t.Underlying().(*types.Basic)
	return ok && b.Info()&types.IsString != 0
}

func isBool(t types.Type) bool {
	b, ok := t.Underlying().(*types.Basic)
	return ok && b.Info()&types.IsBoolean != 0
}

func intWidth(t types.Type) int {
	b, ok := t.Underlying().(*types.Basic)
	if !ok {
		panic(fmt.Sprintf("intWidth of %v", t))
	}
	return basicWidth(b)
}

func (ex *Exec) zeroValue(t types.Type) Value {
	c := ex.ctx
	switch u := t.Underlying().(type) {
	case *types.Basic:
		switch {
		case u.Info()&types.IsBoolean != 0:
			return c.Bool(false)
		case u.Info()&types.IsInteger != 0:
			return c.BVConst(0, basicWidth(u))
		case u.Info()&types.IsFloat != 0:
			return c.RealConst(ratZero)
		case u.Info()&types.IsString != 0:
			return StringV{ex.zeroNode(), c64(c, 0)}
		case u.Kind() == types.UnsafePointer:
			return Ptr{}
		case u.Kind() == types.UntypedNil:
			return Ptr{}
		}
	case *types.Pointer:
		return Ptr{}
	case *types.Struct:
		fs := make([]Value, u.NumFields())
		for i := range fs {
			fs[i] = ex.zeroValue(u.Field(i).Type())
		}
		return &StructV{fs}
	case *types.Array:
		if isByte(u.Elem()) {
			return BytesV{ex.zeroNode(), c64(c, uint64(u.Len()))}
		}
		if u.Len() > 1<<16 {
			panic(pathEnd{kind: "unsupported", msg: fmt.Sprintf("huge non-byte array %v", t)})
		}
		es := make([]Value, u.Len())
		for i := range es {
			es[i] = ex.zeroValue(u.Elem())
		}
		return &ArrayV{es}
	case *types.Slice:
		return SliceV{off: c64(c, 0), len: c64(c, 0), cap: c64(c, 0)}
	case *types.Interface:
		return IfaceV{}
	case *types.Map:
		return MapV{}
	case *types.Chan:
		return ChanV{}
	case *types.Signature:
		return FuncV{}
	case *types.Tuple:
		tv := make(TupleV, u.Len())
		for i := range tv {
			tv[i] = ex.zeroValue(u.At(i).Type())
		}
		return tv
	case *types.TypeParam:
		panic(pathEnd{kind: "unsupported", msg: "zero of type param"})
	}
	panic(pathEnd{kind: "unsupported", msg: fmt.Sprintf("zeroValue %v", t)})
}
