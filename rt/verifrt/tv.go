//go:build verif

package verifrt

// Translator / model validation programs. Every TV function is executed twice: natively
// (real Go runtime and libraries) and by the symbolic engine with all values concrete (the
// engine then folds to constants and uses its *models* of bytes.Buffer, time, the text
// encoders, UTF-8 iteration, field arithmetic, ...). Both runs report their observations
// through Out*; `gosmt` compares the two observation lists and every check run counts the
// compared observations as traces validated against the implementation.

import (
	"bytes"
	"encoding/base32"
	"encoding/base64"
	"encoding/hex"
	"errors"
	"fmt"
	"io"
	"net"
	"strconv"
	"time"

	"filippo.io/edwards25519/field"
)

var tvOut []string

func OutInt(name string, v int)       { tvOut = append(tvOut, name+"="+strconv.Itoa(v)) }
func OutBool(name string, v bool)     { tvOut = append(tvOut, name+"="+strconv.FormatBool(v)) }
func OutBytes(name string, b []byte)  { tvOut = append(tvOut, name+"="+hex.EncodeToString(b)) }
func OutString(name string, s string) { tvOut = append(tvOut, name+"="+hex.EncodeToString([]byte(s))) }

// TVRun runs one validation program and returns its observations.
func TVRun(name string) []string {
	tvOut = nil
	TVFuncs[name]()
	return tvOut
}

// TVFuncs lists the validation programs (same order natively and in the engine).
var TVFuncs = map[string]func(){
	"arith": TVArith, "slices": TVSlices, "buffer": TVBuffer, "time": TVTime, "utf8": TVUtf8,
	"encoders": TVEncoders, "errors": TVErrors, "field": TVField, "netip": TVNetIP,
}

func TVArith() {
	var a int64 = 1<<62 + 12345
	OutInt("add-wrap", int(a+a+a))
	var u8 uint8 = 250
	OutInt("u8-wrap", int(u8+10))
	var i8 int8 = 127
	i8++
	OutInt("i8-wrap", int(i8))
	OutInt("sdiv", (-7)/2)
	OutInt("srem", (-7)%2)
	OutInt("srem2", 7%-2)
	var u uint32 = 0x80000001
	OutInt("shl-over", int(u<<31))
	OutInt("shr", int(u>>31))
	var sh uint = 40
	OutInt("shl-ge-width", int(u<<sh))
	var si int32 = -16
	OutInt("ashr", int(si>>2))
	OutInt("ashr-big", int(si>>sh))
	big32 := uint32(0x12345)
	OutInt("conv-trunc", int(uint16(big32)))
	OutInt("conv-sext", int(int64(int8(-3))))
	OutInt("conv-zext", int(uint64(uint8(253))))
	OutInt("andnot", 0xff&^0x0f)
	OutInt("xor", 0xf0^0xff)
	x := uint16(0xbeef)
	OutInt("be16", int(byte(x>>8))<<8|int(byte(x)))
	m32 := int32(70000)
	OutInt("mul", int(m32*m32))
	OutBool("cmp-unsigned", uint8(200) > uint8(100))
	OutBool("cmp-signed", int8(-56) > int8(100))
}

type tvPoint struct {
	x, y int
	tag  [3]byte
}

func tvDefer(log *[]int) (r int) {
	defer func() {
		if e := recover(); e != nil {
			*log = append(*log, 99)
			r = -1
		}
	}()
	defer func() { *log = append(*log, 2) }()
	*log = append(*log, 1)
	var m map[string]int
	m["boom"] = 1 // panics
	return 5
}

func TVSlices() {
	a := make([]byte, 3, 8)
	a[0], a[1], a[2] = 1, 2, 3
	b := append(a, 4, 5) // in place: shares the backing array
	a = append(a, 9)     // overwrites b[3]
	OutBytes("append-alias", b)
	c := append(b[:5:5], 7) // forced reallocation
	c[0] = 42
	OutBytes("append-realloc", b)
	OutBytes("append-realloc2", c)
	OutInt("copy-n", copy(a[1:], []byte{8, 8, 8, 8, 8, 8, 8, 8, 8}))
	OutBytes("copy", a)
	OutInt("cap-3idx", cap(b[1:3:4]))
	s := "héllo"
	OutInt("strlen", len(s))
	OutString("substr", s[1:3])
	OutBytes("str2bytes", []byte(s))
	p := tvPoint{1, 2, [3]byte{7, 8, 9}}
	q := p
	q.tag[1] = 0
	OutBytes("struct-copy", p.tag[:])
	OutBytes("struct-copy2", q.tag[:])
	m := map[string]int{"a": 1, "b": 2}
	m["c"] = 3
	delete(m, "a")
	sum := 0
	for k, v := range m {
		sum += v * int(k[0])
	}
	OutInt("map-sum", sum)
	OutInt("map-len", len(m))
	_, ok := m["a"]
	OutBool("map-deleted", ok)
	var log []int
	r := tvDefer(&log)
	OutInt("defer-result", r)
	OutInt("defer-order", log[0]*100+log[1]*10+log[2]%10)
	var e any = p
	switch v := e.(type) {
	case int:
		OutInt("typeswitch", v)
	case tvPoint:
		OutInt("typeswitch", v.y+10)
	}
	f := func(k int) func() int { return func() int { k++; return k } }(5)
	f()
	OutInt("closure", f())
	ints := []int{5, 3, 8}
	ints = append(ints[:1], ints[2:]...)
	OutInt("ints", ints[0]*10+ints[1])
}

func TVBuffer() {
	var b bytes.Buffer
	b.Write([]byte("hello world"))
	p := make([]byte, 4)
	n, _ := b.Read(p)
	OutInt("read-n", n)
	OutBytes("read", p[:n])
	OutInt("len", b.Len())
	nx := b.Next(3)
	OutBytes("next", nx)
	b.WriteByte('!')
	b.WriteString("??")
	OutBytes("bytes", b.Bytes())
	c, _ := b.ReadByte()
	OutInt("readbyte", int(c))
	b.Truncate(2)
	OutString("trunc", b.String())
	big := make([]byte, 10)
	n, err := b.Read(big)
	OutInt("read-all", n)
	OutBool("read-all-err", err != nil)
	n, err = b.Read(big)
	OutInt("read-empty", n)
	OutBool("read-empty-eof", errors.Is(err, io.EOF))
	b.Reset()
	OutInt("reset", b.Len())
	nb := bytes.NewBuffer([]byte{1, 2, 3})
	nb.Write([]byte{4})
	OutBytes("newbuffer", nb.Bytes())
	OutInt("next-over", len(nb.Next(10)))
	var full [6]byte
	_, err = io.ReadFull(bytes.NewBuffer([]byte{1, 2, 3}), full[:])
	OutBool("readfull-short", errors.Is(err, io.ErrUnexpectedEOF))
	OutInt("index", bytes.Index([]byte("abcabc"), []byte("ca")))
	OutInt("index-none", bytes.Index([]byte("abcabc"), []byte("cc")))
	OutInt("indexbyte", bytes.IndexByte([]byte("abcabc"), 'c'))
	OutBool("equal", bytes.Equal([]byte("ab"), []byte("ab")))
}

func TVTime() {
	t0 := time.Unix(1700000000, 0)
	OutInt("unix", int(t0.Unix()))
	t1 := t0.Add(90 * time.Second)
	OutInt("add", int(t1.Unix()))
	OutInt("sub", int(t1.Sub(t0)/time.Second))
	OutInt("sub-neg", int(t0.Sub(t1)/time.Second))
	OutBool("after", t1.After(t0))
	OutBool("before", t1.Before(t0))
	OutBool("equal", t0.Add(0).Equal(t0))
	OutBool("iszero", time.Time{}.IsZero())
	OutBool("iszero2", t0.IsZero())
	far := time.Unix(1700000000+400*365*86400, 0)
	OutBool("sub-saturates", far.Sub(t0) == time.Duration(1<<63-1))
	OutInt("hour", int(t0.Unix()/3600))
	d := time.Duration(17)*time.Second + 30*time.Second
	OutInt("dur", int(t0.Add(d).Unix()-t0.Unix()))
}

func TVUtf8() {
	for k, s := range []string{"a", "\xc3\xa9", "\xe2\x82\xac", "\xf0\x9f\x98\x80", "\xff", "\xc3", "\xe2\x82", "\xc0\x80", "\xed\xa0\x80", "a\xc3\xa9z", "\x80a", "\xf4\x90\x80\x80"} {
		acc := 0
		cnt := 0
		for i, r := range s {
			acc = acc*31 + int(r) + i
			cnt++
		}
		OutInt("range-"+strconv.Itoa(k), acc)
		OutInt("count-"+strconv.Itoa(k), cnt)
	}
}

func TVEncoders() {
	raw := []byte{0, 1, 2, 0xfe, 0xff, 0x10, 0x20}
	h := hex.EncodeToString(raw)
	OutString("hex", h)
	d, err := hex.DecodeString(h)
	OutBytes("unhex", d)
	OutBool("unhex-err", err != nil)
	_, err = hex.DecodeString("zz")
	OutBool("unhex-bad", err != nil)
	b64 := base64.StdEncoding.EncodeToString(raw)
	OutString("b64", b64)
	d, _ = base64.StdEncoding.DecodeString(b64)
	OutBytes("unb64", d)
	b32 := base32.StdEncoding.EncodeToString(raw)
	OutString("b32", b32)
	d, _ = base32.StdEncoding.DecodeString(b32)
	OutBytes("unb32", d)
	OutString("itoa", strconv.Itoa(-472222))
	OutString("formatint", strconv.FormatInt(472222, 10))
	v, err := strconv.Atoi("1448")
	OutInt("atoi", v)
	_, err = strconv.Atoi("14x8")
	OutBool("atoi-bad", err != nil)
	OutString("sprintf", fmt.Sprintf("%s:%d [%s] %v", "host", 443, "x", 7))
	OutString("sprintf-T", fmt.Sprintf("<%T>", &net.AddrError{}))
	OutString("sprintf-02x", fmt.Sprintf("0x%02x", 7))
}

type tvErr struct{ msg string }

func (e *tvErr) Error() string { return "tv:" + e.msg }

func TVErrors() {
	base := &tvErr{"base"}
	w1 := fmt.Errorf("ctx: %w", base)
	w2 := &net.OpError{Op: "dial", Net: "tcp", Err: w1}
	OutString("wrap-text", w2.Error())
	OutBool("is", errors.Is(w2, base))
	OutBool("is-not", errors.Is(w2, io.EOF))
	var te *tvErr
	OutBool("as", errors.As(w2, &te))
	OutBool("as-same", te == base)
	var ne net.Error
	OutBool("as-iface", errors.As(w1, &ne))
	OutBool("as-iface2", errors.As(w2, &ne))
	OutString("dns", (&net.DNSError{Err: "no such host", Name: "example.org", Server: "10.0.0.1:53"}).Error())
	OutString("addr", (&net.AddrError{Err: "missing port", Addr: "1.2.3.4"}).Error())
	h, p, err := net.SplitHostPort("[::1]:9050")
	OutString("split", h+"|"+p)
	OutBool("split-err", err != nil)
	_, _, err = net.SplitHostPort("nohostport")
	OutBool("split-err2", err != nil)
}

func feB(b ...byte) *field.Element {
	var buf [32]byte
	copy(buf[:], b)
	fe, _ := new(field.Element).SetBytes(buf[:])
	return fe
}

func TVField() {
	a := feB(5)
	b := feB(0xec, 0xff, 0xff, 0xff, 0xff, 0xff, 0xff, 0xff, 0xff, 0xff, 0xff, 0xff, 0xff, 0xff, 0xff, 0xff, 0xff, 0xff, 0xff, 0xff, 0xff, 0xff, 0xff, 0xff, 0xff, 0xff, 0xff, 0xff, 0xff, 0xff, 0xff, 0x7f) // p-1
	c := feB(0x12, 0x34, 0x56, 0x78, 0x9a, 0xbc, 0xde, 0xf0, 1, 2, 3, 4, 5, 6, 7, 8, 9, 10, 11, 12, 13, 14, 15, 16, 17, 18, 19, 20, 21, 22, 23, 0x24)
	nonCanon := feB(0xee, 0xff, 0xff, 0xff, 0xff, 0xff, 0xff, 0xff, 0xff, 0xff, 0xff, 0xff, 0xff, 0xff, 0xff, 0xff, 0xff, 0xff, 0xff, 0xff, 0xff, 0xff, 0xff, 0xff, 0xff, 0xff, 0xff, 0xff, 0xff, 0xff, 0xff, 0xff) // p+1 with top bit set
	OutBytes("noncanon", nonCanon.Bytes())
	OutBytes("add", new(field.Element).Add(a, b).Bytes())
	OutBytes("sub", new(field.Element).Subtract(a, c).Bytes())
	OutBytes("neg", new(field.Element).Negate(c).Bytes())
	OutBytes("neg0", new(field.Element).Negate(new(field.Element).Zero()).Bytes())
	OutBytes("mul", new(field.Element).Multiply(c, b).Bytes())
	OutBytes("sq", new(field.Element).Square(c).Bytes())
	OutBytes("inv", new(field.Element).Invert(c).Bytes())
	OutBytes("mul32", new(field.Element).Mult32(c, 2).Bytes())
	OutBytes("mul32b", new(field.Element).Mult32(c, 121666).Bytes())
	r, sq := new(field.Element).SqrtRatio(new(field.Element).Square(c), new(field.Element).One())
	OutBytes("sqrt-square", r.Bytes())
	OutInt("sqrt-square-flag", sq)
	r, sq = new(field.Element).SqrtRatio(feB(2), new(field.Element).One())
	OutBytes("sqrt-2", r.Bytes())
	OutInt("sqrt-2-flag", sq)
	r, sq = new(field.Element).SqrtRatio(a, c)
	OutBytes("sqrt-ratio", r.Bytes())
	OutInt("sqrt-ratio-flag", sq)
	r, sq = new(field.Element).SqrtRatio(new(field.Element).Zero(), c)
	OutInt("sqrt-zero-flag", sq)
	r, sq = new(field.Element).SqrtRatio(a, new(field.Element).Zero())
	OutInt("sqrt-div0-flag", sq)
	OutBytes("sqrt-div0", r.Bytes())
	OutBytes("select1", new(field.Element).Select(a, c, 1).Bytes())
	OutBytes("select0", new(field.Element).Select(a, c, 0).Bytes())
	OutInt("equal", a.Equal(feB(5)))
	OutInt("isneg", c.IsNegative())
	OutBytes("abs", new(field.Element).Absolute(new(field.Element).Negate(a)).Bytes())
}

func TVNetIP() {
	OutString("ipv4", net.IPv4(192, 0, 2, 7).String())
	ip6 := make(net.IP, net.IPv6len)
	copy(ip6, []byte{0x20, 0x01, 0x0d, 0xb8, 0, 0, 0, 0, 0, 0, 0, 0, 0, 0, 0, 1})
	OutString("ipv6", ip6.String())
	OutString("nil", net.IP(nil).String())
}
