//go:build verif

package framing

import (
	"errors"
	"bytes"
	"encoding/binary"

	"github.com/dchest/siphash"
	"golang.org/x/crypto/nacl/secretbox"

	"gitlab.com/yawning/obfs4.git/internal/verifrt"
)

// refFrame is the deployed frame format written from the property text: the length of
// the secretbox xor-ed with the first two bytes of block k of SipHash-2-4 in OFB mode with a
// running hash state (block k = H(K, IV | b1 | ... | b(k-1))), then the box sealed under
// nonce = 16-byte prefix | big-endian 64-bit counter k (starting at 1).
func refFrame(key []byte, k int, prevBlocks [][]byte, payload []byte) (frame []byte, block []byte) {
	var boxKey [32]byte
	copy(boxKey[:], key[0:32])
	var nonce [24]byte
	copy(nonce[:16], key[32:48])
	binary.BigEndian.PutUint64(nonce[16:], uint64(k))
	h := siphash.New(key[48:64])
	h.Write(key[64:72]) // IV
	for _, b := range prevBlocks {
		h.Write(b)
	}
	block = h.Sum(nil)
	box := secretbox.Seal(nil, payload, &nonce, &boxKey)
	var hdr [2]byte
	binary.BigEndian.PutUint16(hdr[:], uint16(len(box))^binary.BigEndian.Uint16(block[:2]))
	frame = append(frame, hdr[:]...)
	frame = append(frame, box...)
	return frame, block
}

// VerifC06Frames: lemma W5 – frames 1..3 emitted by the real encoder equal the reference
// frames byte for byte, and the real decoder accepts the reference frames.
func VerifC06Frames() {
	key := verifrt.Bytes("key", KeyLength)
	enc := NewEncoder(key)
	dec := NewDecoder(key)
	var blocks [][]byte
	var wire bytes.Buffer
	for k := 1; k <= 3; k++ {
		n := []int{0, 1, 5, MaximumFramePayloadLength}[verifrt.Pick("payload_len_class", 0, 3)]
		payload := verifrt.Bytes("payload", n)
		var frame [MaximumSegmentLength]byte
		fl, err := enc.Encode(frame[:], payload)
		verifrt.Assert(err == nil, "Encode succeeds")
		ref, block := refFrame(key, k, blocks, payload)
		blocks = append(blocks, block)
		verifrt.Assert(fl == len(payload)+FrameOverhead, "frame length = payload + 18")
		verifrt.Assert(verifrt.Equal(frame[:fl], ref), "frame equals the deployed format (length mask from the running SipHash-OFB, nonce prefix|BE64(k), k from 1)")
		// real decoder on reference frames
		wire.Write(ref)
		var out [MaximumFramePayloadLength]byte
		dl, err := dec.Decode(out[:], &wire)
		verifrt.Assert(err == nil && dl == n, "the real decoder accepts the reference frame")
		verifrt.Assert(verifrt.Equal(out[:dl], payload), "and yields the payload")
	}
	verifrt.Reach("end")
}

// VerifC10DecodeArbitrary: the decoder step on an arbitrary buffer from an arbitrary
// decoder state (lemmas L2/T1/P1): never panics; success consumes one whole frame of the
// announced length; failure leaves the counter unchanged.
func VerifC10DecodeArbitrary() {
	key := verifrt.Bytes("key", KeyLength)
	dec := NewDecoder(key)
	// arbitrary state: a frame length already pulled (any representable value), possibly flagged invalid
	if verifrt.Bool("length_known") {
		dec.nextLength = verifrt.Uint16("next_length")
		verifrt.Assume(dec.nextLength >= minFrameLength && dec.nextLength <= maxFrameLength)
		dec.nextLengthInvalid = verifrt.Bool("next_length_invalid")
		copy(dec.nextNonce[:], verifrt.Bytes("next_nonce", nonceLength))
	}
	dec.nonce.counter = verifrt.Uint64("counter")
	verifrt.Assume(dec.nonce.counter != 0)
	n := []int{0, 1, 2, 3, 17, 18, 1447, 1448, 1449, 1450, 3000}[verifrt.Pick("buffered_len_class", 0, 10)]
	var frames bytes.Buffer
	frames.Write(verifrt.Bytes("buffered", n))
	ctr := dec.nonce.counter
	var out [MaximumFramePayloadLength]byte
	dl, err := dec.Decode(out[:], &frames)
	if err == nil {
		verifrt.Reach("frame decoded")
		verifrt.Assert(dl >= 0 && dl <= MaximumFramePayloadLength, "payload length in range")
		verifrt.Assert(dec.nonce.counter == ctr+1 && dec.nextLength == 0, "counter advanced by one, length state reset")
		verifrt.Assert(!dec.nextLengthInvalid, "a frame whose length field was out of range never decodes")
		verifrt.Assert(n-frames.Len() >= minFrameLength, "one whole frame consumed")
	} else {
		verifrt.Assert(dl == 0, "no output on error")
		verifrt.Assert(dec.nonce.counter == ctr, "counter unchanged on error")
		if errors.Is(err, ErrAgain) {
			verifrt.Reach("needs more data")
			verifrt.Assert(frames.Len() < maxFrameLength+lengthLength, "asks for more data only while less than one maximal frame is buffered (bounded buffering)")
		}
	}
	verifrt.Reach("end")
}
