#!/usr/bin/env python3
"""Runs the overlay mutants of tools/mutants.json: each is a single textual replacement applied to an
overlay copy of the current /repo file (nothing is written to /repo), checked with the property's
quick check (main config only). Prints killed / survived per mutant."""
import json, os, subprocess, sys, time
V='/verif'
muts=json.load(open(V+'/tools/mutants.json'))
sel=sys.argv[1:]
res=[]
for i,m in enumerate(muts):
    if sel and m['prop'] not in sel: continue
    props=[m['prop']]
    if m.get('expect_prop') and m['expect_prop'] not in ('none',m['prop']): props.append(m['expect_prop'])
    killed_by=None; notes=[]
    for prop in props:
        cfg=json.load(open(f'{V}/harness/{prop}.json'))
        name=f'ZZM{i}'
        cfg['property']=prop
        cfg.pop('also',None)
        cfg.setdefault('transforms',[]).append({"file":m['file'],"old":m['old'],"new":m['new']})
        json.dump(cfg,open(f'{V}/harness/{name}.json','w'))
        t0=time.time()
        p=subprocess.run([V+'/bin/gosmt','check',name,'quick','-noreplay']+(['-j',os.environ['MUT_J']] if os.environ.get('MUT_J') else []),capture_output=True,text=True,timeout=1800)
        dt=time.time()-t0
        out=p.stdout
        os.remove(f'{V}/harness/{name}.json')
        for f in (f'{V}/evidence/{name}.json',):
            if os.path.exists(f): os.remove(f)
        subprocess.run(['rm','-rf',f'{V}/replays/{name}'])
        if p.returncode==1 and 'VIOLATION' in out:
            lab=[l for l in out.splitlines() if l.startswith('counterexample')][:1]
            killed_by=f"{prop}: "+(lab[0][:150] if lab else '')
            break
        notes.append(f"{prop} exit={p.returncode} {dt:.0f}s "+' | '.join(l[:110] for l in out.splitlines() if l.startswith('INCONCL'))[:200])
    status='KILLED' if killed_by else 'SURVIVED'
    print(f"[{i}] {m['prop']} {status} :: {m['note']} :: {killed_by or '; '.join(notes)}",flush=True)
    res.append({"index":i,"prop":m['prop'],"note":m['note'],"status":status,"by":killed_by,"notes":notes})
json.dump(res,open(V+'/tools/mutants_result'+('_'+'_'.join(sel) if sel else '')+'.json','w'),indent=1)
print(sum(r['status']=='KILLED' for r in res),'/',len(res),'killed')
