package main

// math/big.Int model: a value is one BV(bigW) term (non-negative integers below 2^bigW),
// stored behind the Int's `abs` slice. Exp is an uninterpreted function (see C13 axioms).

import (
	"math/big"

	"golang.org/x/tools/go/ssa"
)

const bigW = 1600

type BigV struct{ t *Term }

func (ex *Exec) bigGet(v Value) *Term {
	p := v.(Ptr)
	if p.IsNil() {
		ex.unsupported("nil *big.Int")
	}
	sv := ex.load(p).(*StructV)
	abs := sv.fields[1].(SliceV)
	if abs.IsNil() {
		return ex.ctx.zero(bigW)
	}
	bv, ok := abs.base.obj.val.(BigV)
	if !ok {
		ex.unsupported("big.Int not created by the model")
	}
	return bv.t
}

func (ex *Exec) bigSet(v Value, t *Term) Value {
	p := v.(Ptr)
	o := ex.newObj(BigV{t}, "big.Int")
	c := ex.ctx
	sv := ex.load(p).(*StructV)
	fs := make([]Value, len(sv.fields))
	copy(fs, sv.fields)
	fs[0] = c.Bool(false)
	fs[1] = SliceV{base: Ptr{obj: o}, off: c64(c, 0), len: c64(c, 1), cap: c64(c, 1)}
	ex.store(p, &StructV{fs})
	return p
}

func registerBig(e *Engine) {
	B := "(*math/big.Int)."
	e.reg(B+"SetBytes", func(ex *Exec, fn *ssa.Function, args []Value) (Value, *PanicV) {
		c := ex.ctx
		r := ex.sliceRegion(args[1].(SliceV))
		if !r.n.isConst || r.n.cv*8 > bigW {
			ex.unsupported("big.Int.SetBytes with symbolic or oversized length")
		}
		n := int(r.n.cv)
		if n == 0 {
			return ex.bigSet(args[0], c.zero(bigW)), nil
		}
		bv := ex.regionBV(r, n)
		// bytes written by FillBytes of a value known to fit read back as that very value
		if bv.op == "extract" && bv.p2 == 0 && bv.p1 == 8*n-1 && bv.args[0].sort.W == bigW {
			if fits, ok := ex.st["bigfits"].(map[*Term]int); ok {
				if k, ok := fits[bv.args[0]]; ok && k <= n {
					return ex.bigSet(args[0], bv.args[0]), nil
				}
			}
		}
		return ex.bigSet(args[0], c.ZExt(bv, bigW)), nil
	})
	e.reg(B+"FillBytes", func(ex *Exec, fn *ssa.Function, args []Value) (Value, *PanicV) {
		c := ex.ctx
		x := ex.bigGet(args[0])
		dst := args[1].(SliceV)
		if !dst.len.isConst || dst.len.cv*8 > bigW {
			ex.unsupported("big.Int.FillBytes with symbolic length")
		}
		n := int(dst.len.cv)
		fits := c.Ult(x, c.BVBig(new(big.Int).Lsh(big.NewInt(1), uint(8*n)), bigW))
		if pan := ex.rtCheck(fits, "math/big: buffer too small to fit value"); pan != nil {
			pan.runtime = false
			pan.msg = "math/big: buffer too small to fit value"
			return nil, pan
		}
		if n > 0 {
			ex.writeBytes(dst, c64(c, 0), Region{ex.bvNode(c.Extract(x, 8*n-1, 0), n, true), c64(c, 0), dst.len}, dst.len)
		}
		fitMap, _ := ex.st["bigfits"].(map[*Term]int)
		if fitMap == nil {
			fitMap = map[*Term]int{}
			ex.st["bigfits"] = fitMap
		}
		if old, ok := fitMap[x]; !ok || n < old {
			fitMap[x] = n
		}
		return dst, nil
	})
	// Bytes: big-endian, no leading zero bytes. Modelled for values of up to 192 bytes whose
	// most significant byte is non-zero (192 bytes) or zero with a non-zero next byte (191 bytes).
	e.reg(B+"Bytes", func(ex *Exec, fn *ssa.Function, args []Value) (Value, *PanicV) {
		c := ex.ctx
		x := ex.bigGet(args[0])
		if x.isConst {
			b := x.BigVal().Bytes()
			return ex.newByteSlice(ex.litNode(b), c64(c, uint64(len(b))), c64(c, uint64(len(b)))), nil
		}
		if !ex.branch(c.Eq(c.Extract(x, bigW-1, 1536), c.zero(bigW-1536))) {
			ex.unsupported("big.Int.Bytes of a value above 2^1536")
		}
		if !ex.branch(c.Eq(c.Extract(x, 1535, 1528), c.BVConst(0, 8))) {
			return ex.newByteSlice(ex.bvNode(c.Extract(x, 1535, 0), 192, true), c64(c, 192), c64(c, 192)), nil
		}
		if ex.branch(c.Eq(c.Extract(x, 1527, 1520), c.BVConst(0, 8))) {
			ex.eng.noteOnce("big.Int.Bytes: values with two or more leading zero bytes are not explored")
			panic(pathEnd{kind: "infeasible"})
		}
		return ex.newByteSlice(ex.bvNode(c.Extract(x, 1527, 0), 191, true), c64(c, 191), c64(c, 191)), nil
	})
	e.reg(B+"Bit", func(ex *Exec, fn *ssa.Function, args []Value) (Value, *PanicV) {
		c := ex.ctx
		x := ex.bigGet(args[0])
		i := argTerm(ex, args[1])
		if !i.isConst {
			ex.unsupported("big.Int.Bit with symbolic index")
		}
		return c.ZExt(c.Extract(x, int(i.cv), int(i.cv)), 64), nil
	})
	e.reg(B+"SetBit", func(ex *Exec, fn *ssa.Function, args []Value) (Value, *PanicV) {
		c := ex.ctx
		x := ex.bigGet(args[1])
		i, b := argTerm(ex, args[2]), argTerm(ex, args[3])
		if !i.isConst || !b.isConst {
			ex.unsupported("big.Int.SetBit with symbolic arguments")
		}
		m := c.BVBig(new(big.Int).Lsh(big.NewInt(1), uint(i.cv)), bigW)
		var r *Term
		if b.cv == 0 {
			r = c.BAnd(x, c.BNot(m))
		} else {
			r = c.BOr(x, m)
		}
		return ex.bigSet(args[0], r), nil
	})
	e.reg(B+"Sub", func(ex *Exec, fn *ssa.Function, args []Value) (Value, *PanicV) {
		c := ex.ctx
		x, y := ex.bigGet(args[1]), ex.bigGet(args[2])
		if !ex.branch(c.Ule(y, x)) {
			ex.unsupported("big.Int.Sub with negative result")
		}
		return ex.bigSet(args[0], c.Sub(x, y)), nil
	})
	e.reg(B+"Exp", func(ex *Exec, fn *ssa.Function, args []Value) (Value, *PanicV) {
		c := ex.ctx
		x, y, m := ex.bigGet(args[1]), ex.bigGet(args[2]), ex.bigGet(args[3])
		// Canonical Diffie-Hellman form (number theory, assumed): (g^a)^b = (g^b)^a mod m, and
		// (m - X)^e = X^e mod m for even e. Both sides of a key agreement get the same term.
		inner := x
		viaNeg := false
		if x.op == "bvadd" || x.op == "bvsub" {
			// m - modexp(...)
			if x.op == "bvsub" && x.args[0] == m {
				inner = x.args[1]
				viaNeg = true
			}
		}
		if inner.op == "uf" && inner.name == "modexp" && inner.args[2] == m {
			even := c.Extract(y, 0, 0)
			if !viaNeg || (even.isConst && even.cv == 0) {
				g, a := inner.args[0], inner.args[1]
				lo, hi := a, y
				if lo.id > hi.id {
					lo, hi = hi, lo
				}
				r := c.UF("dhexp", BV(bigW), g, lo, hi, m)
				ex.addAxiom(c.Or(c.Eq(m, c.zero(bigW)), c.Ult(r, m)))
				return ex.bigSet(args[0], r), nil
			}
		}
		r := c.UF("modexp", BV(bigW), x, y, m)
		ex.addAxiom(c.Or(c.Eq(m, c.zero(bigW)), c.Ult(r, m)))
		apps, _ := ex.st["modexp"].([][3]*Term)
		ex.st["modexp"] = append(apps, [3]*Term{x, y, m})
		return ex.bigSet(args[0], r), nil
	})
	e.reg(B+"SetString", func(ex *Exec, fn *ssa.Function, args []Value) (Value, *PanicV) {
		c := ex.ctx
		s := ex.argString(args[1])
		base := argTerm(ex, args[2])
		v, ok := new(big.Int).SetString(s, int(base.Int()))
		if !ok || v.Sign() < 0 {
			return TupleV{Ptr{}, c.Bool(false)}, nil
		}
		return TupleV{ex.bigSet(args[0], c.BVBig(v, bigW)), c.Bool(true)}, nil
	})
	e.reg("math/big.NewInt", func(ex *Exec, fn *ssa.Function, args []Value) (Value, *PanicV) {
		c := ex.ctx
		x := argTerm(ex, args[0])
		bt := ex.eng.pkgs["math/big"].Type("Int").Type()
		o := ex.newObj(ex.zeroValue(bt), "big.Int")
		return ex.bigSet(Ptr{obj: o}, c.ZExt(x, bigW)), nil
	})
	e.reg(B+"Cmp", func(ex *Exec, fn *ssa.Function, args []Value) (Value, *PanicV) {
		c := ex.ctx
		x, y := ex.bigGet(args[0]), ex.bigGet(args[1])
		return c.Ite(c.Ult(x, y), c.BVConst(^uint64(0), 64), c.Ite(c.Eq(x, y), c64(c, 0), c64(c, 1))), nil
	})
}
