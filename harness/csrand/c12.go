//go:build verif

package csrand

import (
	"gitlab.com/yawning/obfs4.git/internal/verifrt"
)

// VerifC12IntRange: lemma D1 – IntRange(min,max) returns a value in [min,max] for
// every min <= max (64-bit wrap-around semantics), and does return.
func VerifC12IntRange() {
	min := verifrt.Int("min")
	max := verifrt.Int("max")
	verifrt.Assume(min <= max)
	ret := IntRange(min, max)
	verifrt.Assert(min <= ret && ret <= max, "min <= IntRange(min,max) <= max")
	verifrt.Reach("end")
}

// VerifC12IntRangeBad: max < min panics (documented).
func VerifC12IntRangeBad() {
	min := verifrt.Int("min")
	max := verifrt.Int("max")
	verifrt.Assume(max < min)
	p := verifrt.MayPanic(func() { IntRange(min, max) })
	verifrt.Assert(p, "IntRange(min,max) with max<min panics")
	verifrt.Reach("end")
}

// VerifC12Int63: lemma D2 – Int63 is BE64(8 random bytes) with the top bit cleared.
func VerifC12Int63() {
	v := csRandSourceInstance.Int63()
	verifrt.Assert(v >= 0, "Int63 >= 0")
	verifrt.Reach("end")
}
