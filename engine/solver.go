package main

// Solver processes: persistent `z3 -in`, `z3-new -in`, `cvc5 --incremental`.
// Every query is a self-contained script sent after (reset).

import (
	"bufio"
	"os"
	"fmt"
	"io"
	"math/big"
	"os/exec"
	"strings"
	"sync"
	"sync/atomic"
	"time"
)

type Result int

const (
	Unsat Result = iota
	Sat
	Unknown
)

func (r Result) String() string {
	switch r {
	case Unsat:
		return "unsat"
	case Sat:
		return "sat"
	}
	return "unknown"
}

type proc struct {
	kind string
	cmd  *exec.Cmd
	in   io.WriteCloser
	out  *bufio.Reader
	dead bool
	mark int
}

func backendArgs(kind string) (string, []string) {
	switch kind {
	case "z3":
		return "z3", []string{"-in"}
	case "z3new":
		return "z3-new", []string{"-in"}
	case "cvc5":
		return "cvc5", []string{"--incremental", "--produce-models", "--lang=smt2"}
	case "cvc5int":
		return "cvc5", []string{"--incremental", "--produce-models", "--lang=smt2", "--solve-bv-as-int=sum"}
	}
	panic("unknown backend " + kind)
}

func startProc(kind string) (*proc, error) {
	bin, args := backendArgs(kind)
	cmd := exec.Command(bin, args...)
	in, err := cmd.StdinPipe()
	if err != nil {
		return nil, err
	}
	out, err := cmd.StdoutPipe()
	if err != nil {
		return nil, err
	}
	cmd.Stderr = cmd.Stdout
	if err := cmd.Start(); err != nil {
		return nil, err
	}
	return &proc{kind: kind, cmd: cmd, in: in, out: bufio.NewReaderSize(out, 1<<20)}, nil
}

func (p *proc) kill() {
	if p == nil || p.dead {
		return
	}
	p.dead = true
	p.in.Close()
	_ = p.cmd.Process.Kill()
	go p.cmd.Wait()
}

// readUntil reads lines until the marker line; returns the lines before it.
func (p *proc) readUntil(marker string, deadline time.Time) ([]string, error) {
	type res struct {
		lines []string
		err   error
	}
	ch := make(chan res, 1)
	go func() {
		var lines []string
		for {
			l, err := p.out.ReadString('\n')
			if err != nil {
				ch <- res{lines, err}
				return
			}
			l = strings.TrimSpace(l)
			if l == marker || l == "\""+marker+"\"" {
				ch <- res{lines, nil}
				return
			}
			if l != "" {
				lines = append(lines, l)
			}
		}
	}()
	select {
	case r := <-ch:
		return r.lines, r.err
	case <-time.After(time.Until(deadline)):
		p.kill()
		return nil, fmt.Errorf("timeout")
	}
}

// Stats, global.
type SolverStats struct {
	Queries   int64
	Sat       int64
	Unsat     int64
	Unknown   int64
	Errors    int64
	CrossBoth int64 // thorough tier: discharged assertions confirmed by both solver families
	CrossOne  int64 // ... where the second family did not answer within its budget
	TimeNs    map[string]*int64
	ByBackend map[string]*int64
	mu        sync.Mutex
}

var stats = &SolverStats{TimeNs: map[string]*int64{}, ByBackend: map[string]*int64{}}

func (s *SolverStats) add(kind string, d time.Duration) {
	s.mu.Lock()
	t, ok := s.TimeNs[kind]
	if !ok {
		t = new(int64)
		s.TimeNs[kind] = t
		s.ByBackend[kind] = new(int64)
	}
	n := s.ByBackend[kind]
	s.mu.Unlock()
	atomic.AddInt64(t, int64(d))
	atomic.AddInt64(n, 1)
}

// Pool is a per-worker set of solver processes.
type Pool struct {
	mu    sync.Mutex
	procs map[string]*proc
	// live model session (the process that answered sat last)
	session *proc
}

func NewPool() *Pool { return &Pool{procs: map[string]*proc{}} }

func (pl *Pool) Close() {
	pl.mu.Lock()
	defer pl.mu.Unlock()
	for _, p := range pl.procs {
		p.kill()
	}
}

func (pl *Pool) get(kind string) (*proc, error) {
	pl.mu.Lock()
	defer pl.mu.Unlock()
	p := pl.procs[kind]
	if p != nil && !p.dead {
		return p, nil
	}
	p, err := startProc(kind)
	if err != nil {
		return nil, err
	}
	pl.procs[kind] = p
	return p, nil
}

func (pl *Pool) abandon(kind string) {
	pl.mu.Lock()
	p := pl.procs[kind]
	pl.mu.Unlock()
	if p != nil {
		p.kill()
	}
}

// runOne sends the script to one backend.
func (pl *Pool) runOne(kind string, q *Query, timeoutMs int) (Result, *proc) {
	return pl.runOneC(kind, q, timeoutMs, nil)
}

func (pl *Pool) runOneC(kind string, q *Query, timeoutMs int, cancel *int32) (Result, *proc) {
	p, err := pl.get(kind)
	if err != nil {
		return Unknown, nil
	}
	if cancel != nil && atomic.LoadInt32(cancel) != 0 {
		return Unknown, p
	}
	script := q.Def
	if kind == "z3" {
		script = q.Eq
	}
	start := time.Now()
	defer func() {
		stats.add(kind, time.Since(start))
		if debugSolver && (time.Since(start) > 2*time.Second || os.Getenv("VERIF_ALLQ") != "") {
			fmt.Printf("SLOW-QUERY %s %.1fs script=%dB\n", kind, time.Since(start).Seconds(), len(script))
			if os.Getenv("VERIF_DUMP_SLOW") != "" {
				dumpN++
				_ = os.WriteFile(fmt.Sprintf("%s/slow%d.smt2", os.Getenv("VERIF_DUMP_SLOW"), dumpN), []byte(script), 0o644)
			}
		}
	}()
	p.mark++
	marker := fmt.Sprintf("DONE%d", p.mark)
	var sb strings.Builder
	sb.WriteString("(reset)\n")
	switch kind {
	case "z3", "z3new":
		fmt.Fprintf(&sb, "(set-option :timeout %d)\n", timeoutMs)
	case "cvc5", "cvc5int":
		sb.WriteString("(set-option :produce-models true)\n(set-logic ALL)\n")
		fmt.Fprintf(&sb, "(set-option :tlimit-per %d)\n", timeoutMs)
	}
	sb.WriteString(script)
	fmt.Fprintf(&sb, "(echo \"%s\")\n", marker)
	deadline := time.Now().Add(time.Duration(timeoutMs)*time.Millisecond + 3*time.Second)
	werr := make(chan error, 1)
	go func() {
		_, err := io.WriteString(p.in, sb.String())
		werr <- err
	}()
	lines, err := p.readUntil(marker, deadline)
	if err != nil {
		p.kill()
		return Unknown, p
	}
	if e := <-werr; e != nil {
		p.kill()
		return Unknown, p
	}
	res := Unknown
	bad := false
	for _, l := range lines {
		switch {
		case l == "sat":
			res = Sat
		case l == "unsat":
			res = Unsat
		case l == "unknown":
			res = Unknown
		case strings.HasPrefix(l, "(error"):
			bad = true
			if debugSolver {
				fmt.Println("SOLVER-ERROR", kind, l)
			}
		}
	}
	if bad {
		atomic.AddInt64(&stats.Errors, 1)
		lastSolverError = strings.Join(lines, " ")
		return Unknown, p
	}
	return res, p
}

var debugSolver bool
var dumpN int
var lastSolverError string

// race runs the query on several backends at once and returns the first definitive answer.
func (pl *Pool) race(kinds []string, q *Query, ms int) Result {
	type ans struct {
		r    Result
		p    *proc
		kind string
	}
	ch := make(chan ans, len(kinds))
	cancel := new(int32)
	for _, k := range kinds {
		k := k
		go func() {
			r, p := pl.runOneC(k, q, ms, cancel)
			ch <- ans{r, p, k}
		}()
	}
	res := Unknown
	got := 0
	var pending = map[string]bool{}
	for _, k := range kinds {
		pending[k] = true
	}
	for got < len(kinds) {
		a := <-ch
		got++
		delete(pending, a.kind)
		if a.r != Unknown {
			res = a.r
			if a.r == Sat {
				pl.session = a.p
			}
			// abandon the losers: kill their processes (restarted lazily)
			atomic.StoreInt32(cancel, 1)
			for k := range pending {
				pl.abandon(k)
			}
			// drain
			for got < len(kinds) {
				<-ch
				got++
			}
			break
		}
	}
	return res
}

// Check decides the query with a portfolio: z3 5.x and z3 4.8.12 race first; if
// neither answers within quickMs all four back ends race with slowMs.
func (pl *Pool) Check(q *Query, quickMs, slowMs int) Result {
	atomic.AddInt64(&stats.Queries, 1)
	pl.session = nil
	// stage 0: most queries are answered by z3 5.x within milliseconds; racing (and killing
	// the loser) only pays off for the hard ones
	r, p0 := pl.runOne("z3new", q, 250)
	if r == Sat {
		pl.session = p0
	}
	if r == Unknown {
		r = pl.race([]string{"z3new", "z3"}, q, quickMs)
	}
	if r == Unknown && slowMs > 0 {
		r = pl.race([]string{"z3new", "z3", "cvc5", "cvc5int"}, q, slowMs)
	}
	switch r {
	case Sat:
		atomic.AddInt64(&stats.Sat, 1)
	case Unsat:
		atomic.AddInt64(&stats.Unsat, 1)
	default:
		atomic.AddInt64(&stats.Unknown, 1)
	}
	return r
}

// CheckBoth runs two different solver families and reports disagreement as Unknown.
func (pl *Pool) CheckBoth(q *Query, ms int) (Result, string) {
	r1 := pl.race([]string{"z3new", "z3"}, q, ms)
	r2, _ := pl.runOne("cvc5", q, ms)
	if r1 == Unknown {
		return r2, "cvc5"
	}
	if r2 == Unknown {
		return r1, "z3"
	}
	if r1 != r2 {
		return Unknown, "disagree"
	}
	return r1, "z3+cvc5"
}

// GetValues evaluates expressions (already printed) in the last sat session.
func (pl *Pool) GetValues(exprs []string) ([]string, error) {
	p := pl.session
	if p == nil || p.dead {
		return nil, fmt.Errorf("no sat session")
	}
	out := make([]string, 0, len(exprs))
	const chunk = 200
	for i := 0; i < len(exprs); i += chunk {
		j := i + chunk
		if j > len(exprs) {
			j = len(exprs)
		}
		p.mark++
		marker := fmt.Sprintf("DONE%d", p.mark)
		var sb strings.Builder
		sb.WriteString("(get-value (")
		for _, e := range exprs[i:j] {
			sb.WriteString(e)
			sb.WriteByte(' ')
		}
		sb.WriteString("))\n")
		fmt.Fprintf(&sb, "(echo \"%s\")\n", marker)
		if _, err := io.WriteString(p.in, sb.String()); err != nil {
			return nil, err
		}
		lines, err := p.readUntil(marker, time.Now().Add(30*time.Second))
		if err != nil {
			return nil, err
		}
		txt := strings.Join(lines, " ")
		if strings.Contains(txt, "(error") {
			return nil, fmt.Errorf("get-value: %s", txt)
		}
		sx, err := parseSexp(txt)
		if err != nil {
			return nil, err
		}
		if len(sx.list) != j-i {
			return nil, fmt.Errorf("get-value arity %d != %d: %s", len(sx.list), j-i, txt)
		}
		for _, pair := range sx.list {
			if len(pair.list) != 2 {
				return nil, fmt.Errorf("bad pair")
			}
			out = append(out, pair.list[1].String())
		}
	}
	return out, nil
}

// ---------- s-expressions ----------

type sexp struct {
	atom string
	list []*sexp
	isL  bool
}

func (s *sexp) String() string {
	if !s.isL {
		return s.atom
	}
	var parts []string
	for _, x := range s.list {
		parts = append(parts, x.String())
	}
	return "(" + strings.Join(parts, " ") + ")"
}

func parseSexp(s string) (*sexp, error) {
	pos := 0
	var parse func() (*sexp, error)
	skip := func() {
		for pos < len(s) && (s[pos] == ' ' || s[pos] == '\n' || s[pos] == '\t' || s[pos] == '\r') {
			pos++
		}
	}
	parse = func() (*sexp, error) {
		skip()
		if pos >= len(s) {
			return nil, fmt.Errorf("eof")
		}
		if s[pos] == '(' {
			pos++
			r := &sexp{isL: true}
			for {
				skip()
				if pos >= len(s) {
					return nil, fmt.Errorf("eof in list")
				}
				if s[pos] == ')' {
					pos++
					return r, nil
				}
				x, err := parse()
				if err != nil {
					return nil, err
				}
				r.list = append(r.list, x)
			}
		}
		st := pos
		if s[pos] == '|' {
			pos++
			for pos < len(s) && s[pos] != '|' {
				pos++
			}
			pos++
			return &sexp{atom: s[st:pos]}, nil
		}
		for pos < len(s) && s[pos] != ' ' && s[pos] != ')' && s[pos] != '(' && s[pos] != '\n' {
			pos++
		}
		return &sexp{atom: s[st:pos]}, nil
	}
	return parse()
}

// parseBVValue parses #x.. / #b.. / (_ bvN w) / true / false into a big.Int.
func parseValue(s string) (*big.Int, bool) {
	s = strings.TrimSpace(s)
	switch {
	case s == "true":
		return big.NewInt(1), true
	case s == "false":
		return big.NewInt(0), true
	case strings.HasPrefix(s, "#x"):
		v, ok := new(big.Int).SetString(s[2:], 16)
		return v, ok
	case strings.HasPrefix(s, "#b"):
		v, ok := new(big.Int).SetString(s[2:], 2)
		return v, ok
	case strings.HasPrefix(s, "(_ bv"):
		f := strings.Fields(s[5:])
		if len(f) > 0 {
			v, ok := new(big.Int).SetString(f[0], 10)
			return v, ok
		}
	}
	return nil, false
}
