package main

func registerMore(e *Engine) {}

func cmdSelfcheck(args []string) int { return 0 }
