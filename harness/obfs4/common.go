//go:build verif

package obfs4

import (
	"bytes"

	"gitlab.com/yawning/obfs4.git/common/drbg"
	"gitlab.com/yawning/obfs4.git/common/probdist"
	"gitlab.com/yawning/obfs4.git/internal/verifrt"
	"gitlab.com/yawning/obfs4.git/transports/obfs4/framing"
)

func vSeed(name string) *drbg.Seed {
	s, err := drbg.SeedFromBytes(verifrt.Bytes(name, drbg.SeedLength))
	verifrt.Assume(err == nil)
	return s
}

// vEndpoint builds an established obfs4 connection end directly (the handshake is the
// subject of other properties): encoder keyed with txKey, decoder with rxKey.
func vEndpoint(c *verifrt.Conn, isServer bool, iatMode int, txKey, rxKey []byte) *obfs4Conn {
	lenDist := probdist.New(vSeed("lenseed"), 0, framing.MaximumSegmentLength, false)
	var iatDist *probdist.WeightedDist
	if iatMode != iatNone {
		iatDist = probdist.New(vSeed("iatseed"), 0, maxIATDelay, false)
	}
	return &obfs4Conn{c, isServer, lenDist, iatDist, iatMode, bytes.NewBuffer(nil), bytes.NewBuffer(nil),
		make([]byte, consumeReadSize), framing.NewEncoder(txKey), framing.NewDecoder(rxKey)}
}

// readAll drains the endpoint until the scripted wire is exhausted (the read blocks) or an
// error is returned; returns the delivered bytes and the first error.
func readAll(ep *obfs4Conn, maxReads int, bufSize int) ([]byte, error) {
	var got []byte
	buf := make([]byte, bufSize)
	for i := 0; i < maxReads; i++ {
		n, err := ep.Read(buf)
		got = append(got, buf[:n]...)
		if err != nil {
			return got, err
		}
	}
	return got, nil
}
