//go:build verif

package obfs4

import (
	"bytes"

	"gitlab.com/yawning/obfs4.git/common/drbg"
	"gitlab.com/yawning/obfs4.git/common/ntor"
	"gitlab.com/yawning/obfs4.git/common/replayfilter"
	"gitlab.com/yawning/obfs4.git/common/probdist"
	"gitlab.com/yawning/obfs4.git/internal/verifrt"
	"gitlab.com/yawning/obfs4.git/transports/obfs4/framing"
)

func vSeed(name string) *drbg.Seed {
	s, err := drbg.SeedFromBytes(verifrt.Bytes(name, drbg.SeedLength))
	verifrt.Assume(err == nil)
	return s
}

// vEndpoint builds an established obfs4 connection end directly (the handshake is the
// subject of other properties): encoder keyed with txKey, decoder with rxKey.
func vEndpoint(c *verifrt.Conn, isServer bool, iatMode int, txKey, rxKey []byte) *obfs4Conn {
	lenDist := probdist.New(vSeed("lenseed"), 0, framing.MaximumSegmentLength, false)
	var iatDist *probdist.WeightedDist
	if iatMode != iatNone {
		iatDist = probdist.New(vSeed("iatseed"), 0, maxIATDelay, false)
	}
	return &obfs4Conn{c, isServer, lenDist, iatDist, iatMode, bytes.NewBuffer(nil), bytes.NewBuffer(nil),
		make([]byte, consumeReadSize), framing.NewEncoder(txKey), framing.NewDecoder(rxKey)}
}

// readAll drains the endpoint until the scripted wire is exhausted (the read blocks) or an
// error is returned; returns the delivered bytes and the first error.
func readAll(ep *obfs4Conn, maxReads int, bufSize int) ([]byte, error) {
	var got []byte
	buf := make([]byte, bufSize)
	for i := 0; i < maxReads; i++ {
		n, err := ep.Read(buf)
		got = append(got, buf[:n]...)
		if err != nil {
			return got, err
		}
	}
	return got, nil
}

// ---------- handshake helpers (real code on both sides) ----------

func vServerFactory() *obfs4ServerFactory {
	idKey, err := ntor.NewKeypair(false)
	verifrt.Assume(err == nil)
	nodeID, err := ntor.NewNodeID(verifrt.Bytes("nodeid", ntor.NodeIDLength))
	verifrt.Assume(err == nil)
	filter, err := replayfilter.New(replayTTL)
	verifrt.Assume(err == nil)
	return &obfs4ServerFactory{nil, nil, nodeID, idKey, vSeed("bridge_lenseed"), nil, iatNone, filter, verifrt.IntRange("closeDelay", 0, maxCloseDelay-1)}
}

// vServerConn wraps a scripted connection like WrapConn does (without the distribution tables).
func vServerConn(sf *obfs4ServerFactory, sc *verifrt.Conn) *obfs4Conn {
	lenDist := probdist.New(sf.lenSeed, 0, framing.MaximumSegmentLength, false)
	return &obfs4Conn{sc, true, lenDist, nil, sf.iatMode, bytes.NewBuffer(nil), bytes.NewBuffer(nil), make([]byte, consumeReadSize), nil, nil}
}

func vClientConn(cc *verifrt.Conn) *obfs4Conn {
	lenDist := probdist.New(vSeed("client_lenseed"), 0, framing.MaximumSegmentLength, false)
	return &obfs4Conn{cc, false, lenDist, nil, iatNone, bytes.NewBuffer(nil), bytes.NewBuffer(nil), make([]byte, consumeReadSize), nil, nil}
}

// padClasses makes the handshake padding lengths (csrand.IntRange) a case split over the
// minimum, minimum+1 and maximum of the range; the parsers' behaviour depends on the length
// only through offsets.
func padClasses() {
	verifrt.OnIntn(func(n int) int {
		switch verifrt.Pick("pad_class", 0, verifrt.Param("pad_classes")-1) {
		case 0:
			return 0
		case 1:
			return 1
		default:
			return n - 1
		}
	})
}
