//go:build verif

package obfs4

import (
	"errors"

	"gitlab.com/yawning/obfs4.git/common/ntor"
	"gitlab.com/yawning/obfs4.git/internal/verifrt"
	"gitlab.com/yawning/obfs4.git/transports/obfs4/framing"
)

// VerifC10ReadGarbage: P1/P2/P4 – an established obfs4 endpoint fed arbitrary bytes (the
// AEAD is NOT ideal here: a box may open to arbitrary plaintext, which exercises the packet
// length checks behind it), with a cut/EOF/fault anywhere: never panics, buffers stay bounded.
func VerifC10ReadGarbage() {
	key := verifrt.Bytes("key", framing.KeyLength)
	n := []int{0, 1, 2, 18, 21, 20, 17, 40, 1450, 1448, 3000}[verifrt.Pick("wire_len_class", 0, verifrt.Param("len_classes")-1)]
	wire := verifrt.Bytes("wire", n)
	rxc := verifrt.NewConn("rx", wire)
	rxc.MaxChunks = 2
	rxc.EOFAtEnd = true
	rxc.FailRead = verifrt.IntRange("fail_read", -1, 2)
	rx := vEndpoint(rxc, verifrt.Bool("is_server"), iatNone, key, key)
	buf := make([]byte, 4096)
	total := 0
	for i := 0; i < 4; i++ {
		k, err := rx.Read(buf)
		total += k
		verifrt.Assert(k >= 0 && k <= len(buf), "Read returns a sane count")
		verifrt.Assert(rx.receiveBuffer.Len() <= n, "undecoded buffer never exceeds what was received")
		verifrt.Assert(rx.receiveDecodedBuffer.Len() <= n, "decoded buffer never exceeds what was received")
		if err != nil {
			verifrt.Reach("error returned")
			break
		}
	}
	verifrt.Assert(total <= n, "never delivers more than was received")
	verifrt.Reach("end")
}

// VerifC10ParseServerHandshake: P1 – the client's response parser on arbitrary bytes in a
// buffer of arbitrary capacity (stale bytes beyond the length).
func VerifC10ParseServerHandshake() {
	verifrt.SetClock(vNow)
	verifrt.OnIntn(func(n int) int { return 0 })
	sf := vServerFactory()
	clientKey, err := ntor.NewKeypair(true)
	verifrt.Assume(err == nil)
	hs := newClientHandshake(sf.nodeID, sf.identityKey.Public(), clientKey)
	_, err = hs.generateHandshake()
	verifrt.Assume(err == nil)
	n := []int{0, 95, 96, 97, 128, 160, 300}[verifrt.Pick("len_class", 0, verifrt.Param("len_classes")-1)]
	cp := verifrt.IntRange("cap", 0, n+64)
	verifrt.Assume(cp >= n)
	resp := verifrt.BytesCap("resp", cp, cp)[:n]
	k, seed, perr := hs.parseServerHandshake(resp)
	if perr == nil {
		verifrt.Reach("accepted")
		verifrt.Assert(k >= serverMinHandshakeLength && k <= n && len(seed) == ntor.KeySeedLength, "accepted: consumed length within the buffer")
	} else {
		verifrt.Assert(k == 0 && seed == nil, "no result on error")
		if errors.Is(perr, ErrMarkNotFoundYet) {
			verifrt.Assert(n < maxHandshakeLength, "more data is requested only below the maximum handshake length (bounded buffering)")
		}
	}
	verifrt.Reach("end")
}

// VerifC10ParseClientHandshake: P1/P2 – the server's request parser on arbitrary bytes.
func VerifC10ParseClientHandshake() {
	verifrt.SetClock(vNow)
	verifrt.OnIntn(func(n int) int { return 0 })
	sf := vServerFactory()
	serverKey, err := ntor.NewKeypair(true)
	verifrt.Assume(err == nil)
	hs := newServerHandshake(sf.nodeID, sf.identityKey, serverKey)
	n := []int{0, 63, 64, 65, 141, 8191, 8192, 8193}[verifrt.Pick("len_class", 0, verifrt.Param("len_classes")-1)]
	cp := verifrt.IntRange("cap", 0, n+64)
	verifrt.Assume(cp >= n)
	req := verifrt.BytesCap("req", cp, cp)[:n]
	seed, perr := hs.parseClientHandshake(sf.replayFilter, req)
	if perr == nil {
		verifrt.Reach("accepted")
		verifrt.Assert(len(seed) == ntor.KeySeedLength, "accepted")
	} else if errors.Is(perr, ErrMarkNotFoundYet) {
		verifrt.Assert(n < maxHandshakeLength, "more data is requested only below the maximum handshake length (bounded buffering)")
	}
	verifrt.Reach("end")
}

// VerifC10ClientDeadline: P4/P5 – newObfs4ClientConn over a connection that fails or is
// cut at any call: returns an error, never panics; on success the deadline was armed
// before the first I/O and cleared afterwards.
func VerifC10ClientDeadline() {
	verifrt.Ideal()
	verifrt.SetClock(vNow)
	padClasses()
	sf, clientKey, sc, _ := vHonestExchange()
	full := len(sc.Out)
	cut := []int{full, 0, 1, 95, 96, full - 46, full - 1}[verifrt.Pick("cut_class", 0, verifrt.Param("cut_classes")-1)]
	cc := verifrt.NewConn("cli", sc.Out[:cut])
	cc.MaxChunks = 1
	cc.EOFAtEnd = true
	cc.FailRead = verifrt.IntRange("fail_read", -1, 1)
	cc.FailWrite = verifrt.IntRange("fail_write", -1, 0)
	cc.FailDeadline = verifrt.IntRange("fail_deadline", -1, 1)
	args := &obfs4ClientArgs{sf.nodeID, sf.identityKey.Public(), clientKey, iatNone}
	conn, err := newObfs4ClientConn(cc, args)
	if err != nil {
		verifrt.Reach("failed")
		verifrt.Assert(conn == nil, "no connection on failure")
	} else {
		verifrt.Reach("established")
		verifrt.Assert(cut >= full-inlineSeedFrameLength, "established only on a complete response")
		nd := len(cc.Deadlines)
		verifrt.Assert(nd == 2 && !cc.Deadlines[0].T.IsZero() && cc.Deadlines[1].T.IsZero(), "handshake deadline armed, then cleared")
		verifrt.Assert(cc.Deadlines[0].Op < cc.WriteOps[0], "armed before the first write")
	}
	verifrt.Reach("end")
}

// VerifC10ServerDeadline: P5 – the server arms the handshake deadline (read and write)
// before the first read and removes exactly that deadline on success, so an established
// connection is never killed by a stale handshake timer.
func VerifC10ServerDeadline() {
	verifrt.Ideal()
	verifrt.SetClock(vNow)
	padClasses()
	_, _, sc, _ := vHonestExchange()
	verifrt.Assert(len(sc.Deadlines) == 2, "one deadline armed, one cleared")
	if len(sc.Deadlines) == 2 {
		verifrt.Assert(sc.Deadlines[0].Kind == "all" && !sc.Deadlines[0].T.IsZero() && sc.Deadlines[0].Op < sc.ReadOps[0], "read+write deadline armed before the first read")
		verifrt.Assert(sc.Deadlines[1].Kind == "all" && sc.Deadlines[1].T.IsZero() && sc.Deadlines[1].Op < sc.WriteOps[0], "the same (read+write) deadline is removed before the response is written")
	}
	verifrt.Reach("end")
}

// VerifC10ServerBufferBound: P2 – a peer that keeps sending bytes without ever producing a
// valid mark makes the server give up once maxHandshakeLength bytes are buffered: it never
// reads (and buffers) more than that during the handshake.
func VerifC10ServerBufferBound() {
	verifrt.Ideal() // a MAC never equals a constant string
	verifrt.SetClock(vNow)
	verifrt.OnIntn(func(n int) int { return 0 })
	sf := vServerFactory()
	sc := verifrt.NewConn("srv", make([]byte, 3*maxHandshakeLength))
	chunk := []int{maxHandshakeLength / 2, maxHandshakeLength, 3000}[verifrt.Pick("chunk_class", 0, 2)]
	for c := chunk; c < len(sc.In); c += chunk {
		sc.Cuts = append(sc.Cuts, c)
	}
	sc.EOFAtEnd = true
	srv := vServerConn(sf, sc)
	serverKey, err := ntor.NewKeypair(true)
	verifrt.Assume(err == nil)
	err = srv.serverHandshake(sf, serverKey)
	verifrt.Assert(err != nil && len(sc.Out) == 0, "no valid handshake: error, nothing written")
	verifrt.Assert(sc.Rpos < maxHandshakeLength+chunk && srv.receiveBuffer.Len() <= maxHandshakeLength+chunk, "the server stops reading once the maximum handshake length is buffered")
	verifrt.Assert(sc.Rpos <= 2*maxHandshakeLength, "never more than one read beyond the maximum handshake length")
	verifrt.Reach("end")
}
