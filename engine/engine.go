package main

import (
	"encoding/json"
	"fmt"
	"go/token"
	"os"
	"path/filepath"
	"sort"
	"strings"
	"sync"
	"time"

	"golang.org/x/tools/go/packages"
	"golang.org/x/tools/go/ssa"
	"golang.org/x/tools/go/ssa/ssautil"
)

const repoMod = "gitlab.com/yawning/obfs4.git"

type HarnessCfg struct {
	Name        string            `json:"name"`
	Pkg         string            `json:"pkg"`
	Func        string            `json:"func"`
	Lemma       string            `json:"lemma"`
	Unwind      int               `json:"unwind"`
	UnwindFn    map[string]int    `json:"unwind_fn"`
	UnwindAssume map[string]int   `json:"unwind_assume"` // loops in these functions are *assumed* to exit within K symbolic iterations (rejection sampling)
	Tiers       []string          `json:"tiers"`
	Params      map[string]int    `json:"params"`
	ParamsTier  map[string]map[string]int `json:"params_tier"`
	Reach       []string          `json:"reach"`
	MaxPaths    int               `json:"max_paths"`
	MaxSteps    int               `json:"max_steps"`
	QueueGo     bool              `json:"queue_go"`
	ReverseMaps bool              `json:"reverse_maps"`
	NoReplay    bool              `json:"no_replay"`
	ReplayNote  string            `json:"replay_note"`
	ReplayOptional bool           `json:"replay_optional"` // the native run cannot force all model choices (e.g. distribution samples): an unreproduced counterexample is still reported (solver-decided)
	Assumptions []string          `json:"assumptions"`
	Transform   string            `json:"transform"`
	ExpectPanic bool              `json:"expect_panic"`
	AssertMs    int               `json:"assert_ms"`
	Guarded     []string          `json:"guarded"`
	UnwindCut   map[string]int    `json:"unwind_cut"` // loops in these functions are cut after K symbolic iterations (the rest is outside the claim)
	ExactCap    bool              `json:"exact_cap"` // bytes.Buffer.Bytes() views get cap == len (no symbolic capacity)
	Coop        bool              `json:"coop"`    // cooperative scheduler for the goroutines of the code under analysis (coop.go)
	Preempt     int               `json:"preempt"` // pre-emption budget per path (at verifrt.Yield points)
	RaceMonitor bool              `json:"race_monitor"` // footprint monitor: a byte object that existed before the goroutines were started must not be written by two of them
	EnvAt       []string          `json:"env_at"` // visible operations at which the environment callback runs (default: all)
	NoEnd       bool              `json:"no_end"` // the harness ends blocked by design; "end" is not required
	Real        []string          `json:"real"` // models disabled for this harness (the real SSA body is executed)
}

type PropCfg struct {
	Property    string            `json:"property"`
	Files       map[string]string `json:"files"` // repo-relative path -> verif-relative path
	Harnesses   []*HarnessCfg     `json:"harnesses"`
	Assumptions []string          `json:"assumptions"`
	Bounds      map[string]string `json:"bounds"`
	Outside     []string          `json:"outside"`
	Transforms  []TransformCfg    `json:"transforms"`
	Also        []string          `json:"also"` // further config files of the same property (own overlay/transforms), run after this one
}

// TransformCfg: an overlay copy of a current repo file with exactly one textual replacement.
type TransformCfg struct {
	File string `json:"file"`
	Old  string `json:"old"`
	New  string `json:"new"`
}

type Engine struct {
	prog          *ssa.Program
	pkgs          map[string]*ssa.Package
	fset          *token.FileSet
	models        map[string]modelFn
	maxSteps      int
	unwind        int
	maxConcretize int
	maxRegionCmp  int
	branchMs      int
	branchSlowMs  int
	assertMs      int
	tier          string
	guard         func(ex *Exec, p Ptr, write bool)
	repoDir       string
	verifDir      string
	loadTime      time.Duration
	crossCheck    bool
}

type modelFn func(ex *Exec, fn *ssa.Function, args []Value) (Value, *PanicV)

func (e *Engine) pos(i ssa.Instruction) string {
	p := e.fset.Position(i.Pos())
	if !p.IsValid() {
		return i.Parent().String()
	}
	return fmt.Sprintf("%s:%d", strings.TrimPrefix(p.Filename, e.repoDir+"/"), p.Line)
}

func buildOverlay(repoDir, verifDir string, pc *PropCfg) (map[string][]byte, error) {
	ov := map[string][]byte{}
	// runtime support package
	rtDir := filepath.Join(verifDir, "rt", "verifrt")
	ents, err := os.ReadDir(rtDir)
	if err != nil {
		return nil, err
	}
	for _, e := range ents {
		if !strings.HasSuffix(e.Name(), ".go") || strings.HasSuffix(e.Name(), "_test.go") {
			continue
		}
		b, err := os.ReadFile(filepath.Join(rtDir, e.Name()))
		if err != nil {
			return nil, err
		}
		ov[filepath.Join(repoDir, "internal", "verifrt", e.Name())] = b
	}
	for dst, src := range pc.Files {
		b, err := os.ReadFile(filepath.Join(verifDir, src))
		if err != nil {
			return nil, err
		}
		ov[filepath.Join(repoDir, dst)] = b
	}
	for _, tr := range pc.Transforms {
		p := filepath.Join(repoDir, tr.File)
		b, ok := ov[p] // several transforms of one file compose
		if !ok {
			var err error
			if b, err = os.ReadFile(p); err != nil {
				return nil, err
			}
		}
		s := string(b)
		if strings.Count(s, tr.Old) != 1 {
			return nil, fmt.Errorf("transform of %s: pattern %q matches %d times (need exactly 1)", tr.File, tr.Old, strings.Count(s, tr.Old))
		}
		ov[p] = []byte(strings.Replace(s, tr.Old, tr.New, 1))
	}
	return ov, nil
}

func loadEngine(repoDir, verifDir string, pc *PropCfg) (*Engine, error) {
	start := time.Now()
	ov, err := buildOverlay(repoDir, verifDir, pc)
	if err != nil {
		return nil, err
	}
	pkgSet := map[string]bool{}
	for _, h := range pc.Harnesses {
		pkgSet[h.Pkg] = true
	}
	var patterns []string
	for p := range pkgSet {
		patterns = append(patterns, p)
	}
	sort.Strings(patterns)
	cfg := &packages.Config{
		Mode:       packages.LoadAllSyntax,
		Dir:        repoDir,
		Overlay:    ov,
		BuildFlags: []string{"-tags=verif"},
		Env:        append(os.Environ(), "GOFLAGS=-mod=mod", "GOPROXY=off", "GOSUMDB=off", "GOTOOLCHAIN=local"),
	}
	initial, err := packages.Load(cfg, patterns...)
	if err != nil {
		return nil, err
	}
	var errs []string
	packages.Visit(initial, nil, func(p *packages.Package) {
		for _, e := range p.Errors {
			errs = append(errs, e.Error())
		}
	})
	if len(errs) > 0 {
		if len(errs) > 10 {
			errs = errs[:10]
		}
		return nil, fmt.Errorf("package load errors:\n%s", strings.Join(errs, "\n"))
	}
	prog, _ := ssautil.AllPackages(initial, ssa.InstantiateGenerics)
	prog.Build()
	e := &Engine{
		prog: prog, pkgs: map[string]*ssa.Package{}, fset: prog.Fset,
		maxSteps: 4_000_000, unwind: 12, maxConcretize: 64, maxRegionCmp: 2048,
		branchMs: 3000, branchSlowMs: 20000, assertMs: 10000,
		repoDir: repoDir, verifDir: verifDir,
	}
	for _, p := range prog.AllPackages() {
		e.pkgs[p.Pkg.Path()] = p
	}
	e.models = map[string]modelFn{}
	registerModels(e)
	e.loadTime = time.Since(start)
	return e, nil
}

// ---------- exploration ----------

type HarnessResult struct {
	Cfg         *HarnessCfg
	Paths       int
	Steps       int64
	Ends        map[string]int
	Asserts     int
	TrivAsserts int
	Unknown     []string
	Violations  []*Violation
	Reached     map[string]map[string]any
	Funcs       map[string]int
	Models      map[string]bool
	Notes       map[string]bool
	EndMsgs     map[string]int
	Wall        time.Duration
	Inconcl     []string
	TV          []string
}

func (e *Engine) findFunc(h *HarnessCfg) (*ssa.Function, error) {
	p := e.pkgs[h.Pkg]
	if p == nil {
		return nil, fmt.Errorf("package %s not loaded", h.Pkg)
	}
	f := p.Func(h.Func)
	if f == nil {
		return nil, fmt.Errorf("function %s.%s not found", h.Pkg, h.Func)
	}
	return f, nil
}

func (e *Engine) runPath(h *HarnessCfg, fn *ssa.Function, prefix []int, pool *Pool) (res *PathResult) {
	ex := &Exec{
		eng: e, h: h, ctx: NewCtx(), pool: pool, pcSet: map[int]bool{}, prefix: prefix,
		globals: map[*ssa.Global]*Obj{}, pkgInit: map[*ssa.Package]int{},
		selCache: map[[2]int]*Term{}, hashApps: map[string][]*hashApp{}, st: map[string]interface{}{},
	}
	res = &PathResult{Reached: map[string]map[string]any{}, Funcs: map[string]int{}, Models: map[string]bool{}}
	ex.res = res
	defer func() {
		res.Steps = ex.steps
		res.Trace = ex.trace
		r := recover()
		ex.coAbortAll()
		if r != nil {
			if pe, ok := r.(pathEnd); ok {
				res.End = pe.kind
				res.Msg = pe.msg
				return
			}
			res.End = "engine-error"
			res.Msg = fmt.Sprintf("%v", r)
			if debugEngine {
				panic(r)
			}
		}
	}()
	// run init of the harness package (and, transitively on demand, others)
	ex.runPkgInit(fn.Pkg)
	_, pan := ex.callFunction(fn, nil, nil)
	if pan != nil {
		if h.ExpectPanic {
			res.End = "done"
			return
		}
		ex.reportPanic(pan, "harness")
		res.End = "panic"
		res.Msg = pan.msg
		return
	}
	res.End = "done"
	return
}

var debugEngine bool
var progress bool
var startPrefix []int

func (e *Engine) runHarness(h *HarnessCfg, workers int) *HarnessResult {
	start := time.Now()
	hr := &HarnessResult{Cfg: h, Ends: map[string]int{}, Reached: map[string]map[string]any{}, Funcs: map[string]int{}, Models: map[string]bool{}, Notes: map[string]bool{}, EndMsgs: map[string]int{}}
	fn, err := e.findFunc(h)
	if err != nil {
		hr.Inconcl = append(hr.Inconcl, err.Error())
		return hr
	}
	maxPaths := h.MaxPaths
	if maxPaths == 0 {
		maxPaths = 20000
	}
	var mu sync.Mutex
	cond := sync.NewCond(&mu)
	work := [][]int{nil}
	if startPrefix != nil {
		work = [][]int{startPrefix}
	}
	active := 0
	stop := false
	var wg sync.WaitGroup
	for w := 0; w < workers; w++ {
		wg.Add(1)
		go func() {
			defer wg.Done()
			pool := NewPool()
			defer pool.Close()
			for {
				mu.Lock()
				for len(work) == 0 && active > 0 && !stop {
					cond.Wait()
				}
				if stop || (len(work) == 0 && active == 0) {
					mu.Unlock()
					cond.Broadcast()
					return
				}
				// depth-first: take the last
				pfx := work[len(work)-1]
				work = work[:len(work)-1]
				active++
				mu.Unlock()

				t0 := time.Now()
				if progress {
					fmt.Printf("  start %v\n", pfx)
				}
				res := e.runPath(h, fn, pfx, pool)
				if progress {
					fmt.Printf("  path %v prefix=%d end=%s %s steps=%d forks=%d viol=%d %.1fs\n", pfx, len(pfx), res.End, res.Msg, res.Steps, len(res.Forks), len(res.Violations), time.Since(t0).Seconds())
					_ = pfx
				}

				mu.Lock()
				active--
				hr.Paths++
				hr.Steps += int64(res.Steps)
				hr.Ends[res.End]++
				if res.End != "done" && res.End != "infeasible" {
					hr.EndMsgs[res.End+": "+res.Msg]++
				}
				hr.Asserts += res.Asserts
				hr.TrivAsserts += res.TrivAsserts
				hr.Unknown = append(hr.Unknown, res.Unknown...)
				for _, v := range res.Violations {
					v.Trace = res.Trace
					hr.Violations = append(hr.Violations, v)
				}
				for k, v := range res.Reached {
					if _, ok := hr.Reached[k]; !ok {
						hr.Reached[k] = v
					}
				}
				for k, v := range res.Funcs {
					hr.Funcs[k] = v
				}
				for k := range res.Models {
					hr.Models[k] = true
				}
				for _, n := range res.Notes {
					hr.Notes[n] = true
				}
				hr.TV = append(hr.TV, res.TV...)
				work = append(work, res.Forks...)
				if hr.Paths >= maxPaths {
					stop = true
					hr.Inconcl = append(hr.Inconcl, fmt.Sprintf("path limit %d reached", maxPaths))
				}
				if len(hr.Violations) >= 8 {
					stop = true
				}
				mu.Unlock()
				cond.Broadcast()
			}
		}()
	}
	wg.Wait()
	hr.Wall = time.Since(start)
	// classify
	for k, n := range hr.Ends {
		switch k {
		case "done", "infeasible", "panic", "blocked", "exit", "cut":
		default:
			hr.Inconcl = append(hr.Inconcl, fmt.Sprintf("%d path(s) ended with %s", n, k))
		}
	}
	nUnkAssert := 0
	for _, u := range hr.Unknown {
		if u != "branch" {
			nUnkAssert++
		}
	}
	if nUnkAssert > 0 {
		hr.Inconcl = append(hr.Inconcl, fmt.Sprintf("%d assertion query(ies) unknown", nUnkAssert))
	}
	req := append([]string{}, h.Reach...)
	if !h.NoEnd {
		req = append(req, "end")
	}
	for _, r := range req {
		if _, ok := hr.Reached[r]; !ok {
			hr.Inconcl = append(hr.Inconcl, "vacuity: label "+r+" not reached")
		}
	}
	return hr
}

func loadPropCfg(path string) (*PropCfg, error) {
	b, err := os.ReadFile(path)
	if err != nil {
		return nil, err
	}
	pc := &PropCfg{}
	if err := json.Unmarshal(b, pc); err != nil {
		return nil, fmt.Errorf("%s: %w", path, err)
	}
	return pc, nil
}

func tierMatch(h *HarnessCfg, tier string) bool {
	if len(h.Tiers) == 0 || debugEngine {
		return true
	}
	for _, t := range h.Tiers {
		if t == tier {
			return true
		}
	}
	return false
}
