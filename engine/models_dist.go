package main

// Opaque model of probdist.WeightedDist for harnesses whose subject is not the
// distribution itself (C12 runs the real code): New records the bounds, Sample returns an
// arbitrary value in [min,max] (a superset of every seed's table, both bias settings),
// Reset records the seed it was given.

import (
	"golang.org/x/tools/go/ssa"
)

func registerDist(e *Engine) {
	pd := repoMod + "/common/probdist"
	e.reg(pd+".New", func(ex *Exec, fn *ssa.Function, args []Value) (Value, *PanicV) {
		c := ex.ctx
		t := ex.eng.pkgs[pd].Type("WeightedDist").Type()
		sv := ex.zeroValue(t).(*StructV)
		min, max := argTerm(ex, args[1]), argTerm(ex, args[2])
		if pan := ex.rtCheck(c.Slt(min, max), "wDist.Reset(): min >= max"); pan != nil {
			return nil, pan
		}
		fs := append([]Value{}, sv.fields...)
		fs[1], fs[2], fs[3] = min, max, args[3]
		o := ex.newObj(&StructV{fs}, "WeightedDist")
		o.typ = t
		p := Ptr{obj: o}
		ex.distSeeds()[o] = append(ex.distSeeds()[o], args[0])
		return p, nil
	})
	e.reg("(*"+pd+".WeightedDist).Sample", func(ex *Exec, fn *ssa.Function, args []Value) (Value, *PanicV) {
		c := ex.ctx
		p := args[0].(Ptr)
		if p.IsNil() {
			return nil, ex.rtPanic("invalid memory address or nil pointer dereference (nil *WeightedDist)")
		}
		sv := ex.load(p).(*StructV)
		min, max := sv.fields[1].(*Term), sv.fields[2].(*Term)
		if cb, ok := ex.st["onsample"].(Value); ok && cb != nil {
			// the harness chooses the sample (it must stay inside [min,max])
			r, pan := ex.callAny(cb, []Value{min, max}, nil)
			if pan != nil {
				return nil, pan
			}
			v := r.(*Term)
			if in := c.And(c.Sle(min, v), c.Sle(v, max)); in.IsFalse() {
				ex.unsupported("OnSample callback returned a value outside [min,max]")
			} else if !in.IsTrue() && !ex.pcSet[in.id] {
				// symbolic sample: its range must already be part of the path condition
				ok := true
				for _, p := range []*Term{c.Sle(min, v), c.Sle(v, max)} {
					if !p.IsTrue() && !ex.pcSet[p.id] {
						ok = false
					}
				}
				if !ok && ex.feasible(c.Not(in)) != Unsat {
					ex.unsupported("OnSample callback returned a value outside [min,max]")
				}
			}
			return v, nil
		}
		v := c.Fresh("sample", BV(64))
		ex.tape = append(ex.tape, Draw{Name: "dist_sample", Kind: "sample", Term: v, Width: 64})
		ex.addAxiom(c.And(c.Sle(min, v), c.Sle(v, max)))
		return v, nil
	})
	e.reg("(*"+pd+".WeightedDist).Reset", func(ex *Exec, fn *ssa.Function, args []Value) (Value, *PanicV) {
		p := args[0].(Ptr)
		if p.IsNil() {
			return nil, ex.rtPanic("invalid memory address or nil pointer dereference (nil *WeightedDist)")
		}
		ex.distSeeds()[p.obj] = append(ex.distSeeds()[p.obj], args[1])
		return nil, nil
	})
	e.reg(rtPkg+".OnSample", func(ex *Exec, fn *ssa.Function, args []Value) (Value, *PanicV) {
		ex.st["onsample"] = args[0]
		return nil, nil
	})
	// verifrt.DistSeeds(dist) [][]byte : seeds given to New/Reset so far (ghost state)
	e.reg(rtPkg+".DistResets", func(ex *Exec, fn *ssa.Function, args []Value) (Value, *PanicV) {
		iv := args[0].(IfaceV)
		p := iv.val.(Ptr)
		return c64(ex.ctx, uint64(len(ex.distSeeds()[p.obj]))), nil
	})
	e.reg(rtPkg+".DistLastSeed", func(ex *Exec, fn *ssa.Function, args []Value) (Value, *PanicV) {
		c := ex.ctx
		iv := args[0].(IfaceV)
		p := iv.val.(Ptr)
		l := ex.distSeeds()[p.obj]
		if len(l) == 0 {
			return SliceV{off: c64(c, 0), len: c64(c, 0), cap: c64(c, 0)}, nil
		}
		sp, ok := l[len(l)-1].(Ptr)
		if !ok || sp.IsNil() {
			return SliceV{off: c64(c, 0), len: c64(c, 0), cap: c64(c, 0)}, nil
		}
		b := ex.bytesOf(sp)
		return ex.newByteSlice(b.node, b.n, b.n), nil
	})
}

func (ex *Exec) distSeeds() map[*Obj][]Value {
	m, ok := ex.st["distseeds"].(map[*Obj][]Value)
	if !ok {
		m = map[*Obj][]Value{}
		ex.st["distseeds"] = m
	}
	return m
}
