package main

// File-system model with crash points, and injective "token" models of the text
// encoders (JSON, hex, base64, base32): an encoder output is an opaque string whose
// decoder is the exact inverse on encoder outputs (recognised byte-term by byte-term)
// and an error on strict prefixes / the empty string; fully concrete inputs are
// encoded/decoded by the real functions.

import (
	"encoding/base32"
	"encoding/base64"
	"encoding/hex"
	"go/types"

	"golang.org/x/tools/go/ssa"
)

type fsFile struct {
	exists  bool
	content Region
	perm    *Term
}

type fsState struct {
	files   map[string]*fsFile
	steps   int  // mutating steps performed so far
	crashAt int  // step index that does not happen (-1: never)
	torn    bool // a crash at a write step leaves a prefix
	log     []string
}

type crashSignal struct{}

func (ex *Exec) fsGet() *fsState {
	s, ok := ex.st["fs"].(*fsState)
	if !ok {
		s = &fsState{files: map[string]*fsFile{}, crashAt: -1}
		ex.st["fs"] = s
	}
	return s
}

// fsStep is called before each mutating step; returns false when the process is killed
// right here (the step does not happen; torn writes are handled by the caller).
func (ex *Exec) fsStep(what string) bool {
	s := ex.fsGet()
	if s.crashAt >= 0 && s.steps == s.crashAt {
		s.log = append(s.log, "CRASH before "+what)
		return false
	}
	s.steps++
	s.log = append(s.log, what)
	return true
}

type encEntry struct {
	enc Region // encoded text
	raw Value  // snapshot of what was encoded (Region for byte encoders, deep value for JSON)
	typ types.Type
}

func (ex *Exec) encTable(kind string) []*encEntry {
	l, _ := ex.st["enc:"+kind].([]*encEntry)
	return l
}

func (ex *Exec) encAdd(kind string, e *encEntry) {
	ex.st["enc:"+kind] = append(ex.encTable(kind), e)
}

// sameText: r is, byte term for byte term, the encoded text e (equal concrete lengths).
func (ex *Exec) sameText(r, e Region) bool {
	if !r.n.isConst || !e.n.isConst || r.n.cv != e.n.cv {
		return false
	}
	c := ex.ctx
	for i := uint64(0); i < r.n.cv; i++ {
		if ex.regAt(r, c64(c, i)) != ex.regAt(e, c64(c, i)) {
			return false
		}
	}
	return true
}

func (ex *Exec) concreteBytes(r Region) ([]byte, bool) {
	if !r.n.isConst || r.n.cv > 1<<20 {
		return nil, false
	}
	c := ex.ctx
	out := make([]byte, r.n.cv)
	for i := range out {
		t := ex.regAt(r, c64(c, uint64(i)))
		if !t.isConst {
			return nil, false
		}
		out[i] = byte(t.cv)
	}
	return out, true
}

// opaqueEncoding builds an injective encoding of raw of concrete text length n; the last
// `pad` characters are the concrete byte padCh.
func (ex *Exec) opaqueEncoding(kind string, raw Region, n int, pad int, padCh byte) Region {
	c := ex.ctx
	for _, e := range ex.encTable(kind) {
		if rr, ok := e.raw.(Region); ok && ex.synEqual(rr, raw) {
			return e.enc
		}
	}
	sid := ex.applyHash("enc-"+kind, 64, true, raw)
	var node *BNode = ex.newNode(&BNode{kind: bFn, sid: sid})
	for i := 0; i < pad; i++ {
		node = ex.storeNode(node, c64(c, uint64(n-1-i)), c.BVConst(uint64(padCh), 8))
	}
	enc := Region{node, c64(c, 0), c64(c, uint64(n))}
	ex.encAdd(kind, &encEntry{enc: enc, raw: raw})
	return enc
}

func (ex *Exec) byteEncode(kind string, raw Region, realEnc func([]byte) string, encLen func(n int) (int, int), padCh byte) StringV {
	if b, ok := ex.concreteBytes(raw); ok {
		return ex.mkString(realEnc(b))
	}
	if !raw.n.isConst {
		ex.unsupported("%s encoding of symbolic length", kind)
	}
	n, pad := encLen(int(raw.n.cv))
	e := ex.opaqueEncoding(kind, raw, n, pad, padCh)
	return StringV{e.node, e.n}
}

func (ex *Exec) byteDecode(kind string, s Region, realDec func(string) ([]byte, error)) (Value, Value) {
	c := ex.ctx
	nilSlice := SliceV{off: c64(c, 0), len: c64(c, 0), cap: c64(c, 0)}
	if b, ok := ex.concreteBytes(s); ok {
		out, err := realDec(string(b))
		if err != nil {
			return nilSlice, ex.errorString(err.Error())
		}
		return ex.newByteSlice(ex.litNode(out), c64(c, uint64(len(out))), c64(c, uint64(len(out)))), nilErr()
	}
	for _, e := range ex.encTable(kind) {
		if ex.sameText(s, e.enc) {
			raw := e.raw.(Region)
			return ex.newByteSlice(ex.shiftNode(raw.node, raw.off), raw.n, raw.n), nilErr()
		}
	}
	// some other (symbolic) text: it either fails to decode or decodes to arbitrary bytes
	if ex.branch(c.Fresh(kind+"_bad", BoolSort)) {
		return nilSlice, ex.errorString(kind + ": illegal input")
	}
	n := c.Fresh(kind+"_declen", BV(64))
	ex.addAxiom(c.Ule(n, s.n))
	return ex.newByteSlice(ex.baseNode(kind+"dec"), n, n), nilErr()
}

func registerFS(e *Engine) {
	// ----- encoders -----
	e.reg("encoding/hex.EncodeToString", func(ex *Exec, fn *ssa.Function, args []Value) (Value, *PanicV) {
		return ex.byteEncode("hex", ex.sliceRegion(args[0].(SliceV)), hex.EncodeToString, func(n int) (int, int) { return 2 * n, 0 }, 0), nil
	})
	e.reg("encoding/hex.DecodeString", func(ex *Exec, fn *ssa.Function, args []Value) (Value, *PanicV) {
		v, err := ex.byteDecode("hex", ex.stringRegion(args[0].(StringV)), hex.DecodeString)
		return TupleV{v, err}, nil
	})
	e.reg("(*encoding/base64.Encoding).EncodeToString", func(ex *Exec, fn *ssa.Function, args []Value) (Value, *PanicV) {
		return ex.byteEncode("base64", ex.sliceRegion(args[1].(SliceV)), base64.StdEncoding.EncodeToString, func(n int) (int, int) {
			return (n + 2) / 3 * 4, (3 - n%3) % 3
		}, '='), nil
	})
	e.reg("(*encoding/base64.Encoding).DecodeString", func(ex *Exec, fn *ssa.Function, args []Value) (Value, *PanicV) {
		v, err := ex.byteDecode("base64", ex.stringRegion(args[1].(StringV)), base64.StdEncoding.DecodeString)
		return TupleV{v, err}, nil
	})
	e.reg("(*encoding/base32.Encoding).EncodeToString", func(ex *Exec, fn *ssa.Function, args []Value) (Value, *PanicV) {
		return ex.byteEncode("base32", ex.sliceRegion(args[1].(SliceV)), base32.StdEncoding.EncodeToString, func(n int) (int, int) {
			pad := map[int]int{0: 0, 1: 6, 2: 4, 3: 3, 4: 1}[n%5]
			return (n + 4) / 5 * 8, pad
		}, '='), nil
	})
	e.reg("(*encoding/base32.Encoding).DecodeString", func(ex *Exec, fn *ssa.Function, args []Value) (Value, *PanicV) {
		v, err := ex.byteDecode("base32", ex.stringRegion(args[1].(StringV)), base32.StdEncoding.DecodeString)
		return TupleV{v, err}, nil
	})
	// ----- JSON (token model) -----
	e.reg("encoding/json.Marshal", func(ex *Exec, fn *ssa.Function, args []Value) (Value, *PanicV) {
		c := ex.ctx
		iv := args[0].(IfaceV)
		snap := ex.deepCopy(iv.val, 0)
		n := c.Fresh("jsonlen", BV(64))
		ex.addAxiom(c.And(c.Ule(c64(c, 2), n), c.Ult(n, c64(c, 1<<16))))
		node := ex.baseNode("json")
		enc := Region{node, c64(c, 0), n}
		ex.encAdd("json", &encEntry{enc: enc, raw: snap, typ: iv.typ})
		return TupleV{ex.newByteSlice(node, n, n), nilErr()}, nil
	})
	e.reg("encoding/json.Unmarshal", func(ex *Exec, fn *ssa.Function, args []Value) (Value, *PanicV) {
		c := ex.ctx
		data := ex.sliceRegion(args[0].(SliceV))
		dst := args[1].(IfaceV)
		// which marshalled document is this (by its content node)?
		for _, e := range ex.encTable("json") {
			if sameBase(ex, data, e.enc) {
				// a strict prefix (torn write) or the empty file does not parse
				if !ex.branch(c.Eq(data.n, e.enc.n)) {
					return ex.errorString("unexpected end of JSON input"), nil
				}
				ex.jsonAssign(dst, e)
				return nilErr(), nil
			}
		}
		if isZero(data.n) {
			return ex.errorString("unexpected end of JSON input"), nil
		}
		if !data.n.isConst {
			if ex.branch(c.Eq(data.n, c64(c, 0))) {
				return ex.errorString("unexpected end of JSON input"), nil
			}
		}
		ex.unsupported("json.Unmarshal of a document that was not produced by json.Marshal on this path")
		return nil, nil
	})
	// ----- files -----
	e.reg("os.ReadFile", func(ex *Exec, fn *ssa.Function, args []Value) (Value, *PanicV) {
		c := ex.ctx
		name := ex.argString(args[0])
		f := ex.fsGet().files[name]
		if f == nil || !f.exists {
			return TupleV{SliceV{off: c64(c, 0), len: c64(c, 0), cap: c64(c, 0)}, ex.enoent()}, nil
		}
		return TupleV{SliceV{base: Ptr{obj: ex.newObj(BytesV{f.content.node, c64(c, bufCap)}, "file:"+name)}, off: f.content.off, len: f.content.n, cap: f.content.n}, nilErr()}, nil
	})
	e.reg("os.WriteFile", func(ex *Exec, fn *ssa.Function, args []Value) (Value, *PanicV) {
		c := ex.ctx
		name := ex.argString(args[0])
		data := ex.sliceRegion(args[1].(SliceV))
		perm := argTerm(ex, args[2])
		s := ex.fsGet()
		// step 1: open with O_TRUNC (creates or empties the file)
		if !ex.fsStep("open-truncate " + name) {
			panic(crashSignal{})
		}
		f := s.files[name]
		if f == nil {
			f = &fsFile{perm: perm}
			s.files[name] = f
		}
		f.exists = true
		f.content = Region{ex.zeroNode(), c64(c, 0), c64(c, 0)}
		// step 2: write
		if !ex.fsStep("write " + name) {
			if s.torn {
				k := c.Fresh("torn", BV(64))
				ex.recordDraw(Draw{Name: "torn_write_len", Kind: "uint", Term: k, Width: 64})
				ex.addAxiom(c.Ult(k, data.n))
				f.content = Region{data.node, data.off, k}
			}
			panic(crashSignal{})
		}
		f.content = data
		return nilErr(), nil
	})
	// os.OpenFile / (*os.File).Write / Close: enough for "create (exclusive / truncating), write, close"
	e.reg("os.OpenFile", func(ex *Exec, fn *ssa.Function, args []Value) (Value, *PanicV) {
		c := ex.ctx
		name := ex.argString(args[0])
		flag := argTerm(ex, args[1])
		if !flag.isConst {
			ex.unsupported("os.OpenFile with symbolic flags")
		}
		const oCreate, oExcl, oTrunc = 0x40, 0x80, 0x200
		s := ex.fsGet()
		f := s.files[name]
		exists := f != nil && f.exists
		if exists && flag.cv&oExcl != 0 && flag.cv&oCreate != 0 {
			return TupleV{Ptr{}, ex.errorString("open " + name + ": file exists")}, nil
		}
		if !exists && flag.cv&oCreate == 0 {
			return TupleV{Ptr{}, ex.enoent()}, nil
		}
		if !exists || flag.cv&oTrunc != 0 {
			if !ex.fsStep("open-create/truncate " + name) {
				panic(crashSignal{})
			}
			if f == nil {
				f = &fsFile{}
				s.files[name] = f
			}
			if !exists {
				f.perm = argTerm(ex, args[2])
			}
			f.exists = true
			f.content = Region{ex.zeroNode(), c64(c, 0), c64(c, 0)}
		}
		ft := ex.eng.pkgs["os"].Type("File").Type()
		o := ex.newObj(ex.zeroValue(ft), "os.File:"+name)
		ex.st["file:"+itoa(o.id)] = name
		ex.st["filepos:"+itoa(o.id)] = c64(c, 0)
		return TupleV{Ptr{obj: o}, nilErr()}, nil
	})
	e.reg("(*os.File).Write", func(ex *Exec, fn *ssa.Function, args []Value) (Value, *PanicV) {
		c := ex.ctx
		p := args[0].(Ptr)
		name, ok := ex.st["file:"+itoa(p.obj.id)].(string)
		if !ok {
			ex.unsupported("Write on a file not opened by the model")
		}
		data := ex.sliceRegion(args[1].(SliceV))
		s := ex.fsGet()
		f := s.files[name]
		pos := ex.st["filepos:"+itoa(p.obj.id)].(*Term)
		overlay := func(n *Term) {
			// write n bytes at pos over the existing content (no truncation)
			if isZero(pos) && isZero(f.content.n) {
				f.content = Region{data.node, data.off, n}
				return
			}
			node := ex.copyNode(ex.shiftNode(f.content.node, f.content.off), pos, data.node, data.off, n)
			end := c.Add(pos, n)
			f.content = Region{node, c64(c, 0), c.Ite(c.Ult(f.content.n, end), end, f.content.n)}
		}
		if !ex.fsStep("write " + name) {
			if s.torn {
				k := c.Fresh("torn", BV(64))
				ex.recordDraw(Draw{Name: "torn_write_len", Kind: "uint", Term: k, Width: 64})
				ex.addAxiom(c.Ult(k, data.n))
				overlay(k)
			}
			panic(crashSignal{})
		}
		overlay(data.n)
		ex.st["filepos:"+itoa(p.obj.id)] = c.Add(pos, data.n)
		return TupleV{data.n, nilErr()}, nil
	})
	e.reg("(*os.File).Close", func(ex *Exec, fn *ssa.Function, args []Value) (Value, *PanicV) {
		return nilErr(), nil
	})
	e.reg("(*os.File).Sync", func(ex *Exec, fn *ssa.Function, args []Value) (Value, *PanicV) {
		return nilErr(), nil
	})
	e.reg("os.Rename", func(ex *Exec, fn *ssa.Function, args []Value) (Value, *PanicV) {
		from, to := ex.argString(args[0]), ex.argString(args[1])
		s := ex.fsGet()
		f := s.files[from]
		if f == nil || !f.exists {
			return ex.enoent(), nil
		}
		if !ex.fsStep("rename " + from + " -> " + to) {
			panic(crashSignal{})
		}
		s.files[to] = &fsFile{exists: true, content: f.content, perm: f.perm}
		f.exists = false
		return nilErr(), nil
	})
	e.reg("os.Remove", func(ex *Exec, fn *ssa.Function, args []Value) (Value, *PanicV) {
		name := ex.argString(args[0])
		s := ex.fsGet()
		f := s.files[name]
		if f == nil || !f.exists {
			return ex.enoent(), nil
		}
		if !ex.fsStep("remove " + name) {
			panic(crashSignal{})
		}
		f.exists = false
		return nilErr(), nil
	})
	e.reg("os.IsNotExist", func(ex *Exec, fn *ssa.Function, args []Value) (Value, *PanicV) {
		return ex.valueEq(args[0], ex.enoent()), nil
	})
	e.reg("path.Join", func(ex *Exec, fn *ssa.Function, args []Value) (Value, *PanicV) {
		sl := args[0].(SliceV)
		n := ex.concretize(sl.len, 16, "path.Join args")
		av := ex.load(sl.base).(*ArrayV)
		out := ""
		for i := 0; i < n; i++ {
			p := ex.argString(av.elems[i])
			if p == "" {
				continue
			}
			if out != "" {
				out += "/"
			}
			out += p
		}
		return ex.mkString(out), nil
	})
	// ----- harness interface -----
	e.reg(rtPkg+".FSSteps", func(ex *Exec, fn *ssa.Function, args []Value) (Value, *PanicV) {
		return c64(ex.ctx, uint64(ex.fsGet().steps)), nil
	})
	e.reg(rtPkg+".FSExists", func(ex *Exec, fn *ssa.Function, args []Value) (Value, *PanicV) {
		f := ex.fsGet().files[ex.argString(args[0])]
		return ex.ctx.Bool(f != nil && f.exists), nil
	})
	e.reg(rtPkg+".FSPerm", func(ex *Exec, fn *ssa.Function, args []Value) (Value, *PanicV) {
		f := ex.fsGet().files[ex.argString(args[0])]
		if f == nil || f.perm == nil {
			return c64(ex.ctx, 0), nil
		}
		return ex.ctx.ZExt(f.perm, 64), nil
	})
	e.reg(rtPkg+".CrashAt", func(ex *Exec, fn *ssa.Function, args []Value) (Value, *PanicV) {
		k := argTerm(ex, args[0])
		if !k.isConst {
			ex.unsupported("CrashAt needs a concrete step (use Pick)")
		}
		ex.fsGet().crashAt = int(k.Int())
		ex.fsGet().torn = argTerm(ex, args[1]).IsTrue()
		return nil, nil
	})
	e.reg(rtPkg+".RunUntilCrash", func(ex *Exec, fn *ssa.Function, args []Value) (res Value, pan *PanicV) {
		savedFrame, savedDepth := ex.frame, ex.depth
		heldSaved := ex.st["held"]
		defer func() {
			if r := recover(); r != nil {
				if _, ok := r.(crashSignal); ok {
					// the process was killed: all in-memory state is gone
					ex.frame, ex.depth = savedFrame, savedDepth
					ex.st["held"] = heldSaved
					if m, ok := heldSaved.(map[string]bool); ok {
						for k := range m {
							delete(m, k)
						}
					}
					res, pan = ex.ctx.Bool(true), nil
					return
				}
				panic(r)
			}
		}()
		_, p := ex.callAny(args[0], nil, nil)
		if p != nil {
			return nil, p
		}
		return ex.ctx.Bool(false), nil
	})
}

func sameBase(ex *Exec, a, b Region) bool {
	return a.node == b.node && a.off == b.off
}

func (ex *Exec) enoent() Value {
	if v, ok := ex.st["enoent"].(Value); ok {
		return v
	}
	v := ex.errorString("open: no such file or directory")
	ex.st["enoent"] = v
	return v
}

// deepCopy snapshots a value reachable through pointers/maps (for the JSON token model).
func (ex *Exec) deepCopy(v Value, depth int) Value {
	if depth > 6 {
		ex.unsupported("deepCopy too deep")
	}
	switch x := v.(type) {
	case Ptr:
		if x.IsNil() {
			return x
		}
		return &boxed{ex.deepCopy(ex.load(x), depth+1)}
	case *StructV:
		fs := make([]Value, len(x.fields))
		for i, f := range x.fields {
			fs[i] = ex.deepCopy(f, depth+1)
		}
		return &StructV{fs}
	case MapV:
		if x.m == nil {
			return x
		}
		cp := &MapObj{typ: x.m.typ}
		for _, e := range x.m.entries {
			cp.entries = append(cp.entries, MapEntry{ex.deepCopy(e.key, depth+1), ex.deepCopy(e.val, depth+1)})
		}
		return MapV{cp}
	}
	return v
}

type boxed struct{ v Value }

// jsonAssign stores the snapshot of a marshalled document into the Unmarshal destination.
func (ex *Exec) jsonAssign(dst IfaceV, e *encEntry) {
	p, ok := dst.val.(Ptr)
	if !ok || p.IsNil() {
		ex.unsupported("json.Unmarshal into non-pointer")
	}
	src := e.raw
	if b, ok := src.(*boxed); ok {
		src = b.v
	}
	ex.store(p, ex.thaw(src, ex.load(p)))
}

// thaw turns a snapshot back into live values (fresh objects behind pointers, fresh maps).
func (ex *Exec) thaw(snap Value, like Value) Value {
	switch x := snap.(type) {
	case *boxed:
		o := ex.newObj(ex.thaw(x.v, nil), "json")
		return Ptr{obj: o}
	case *StructV:
		fs := make([]Value, len(x.fields))
		for i, f := range x.fields {
			fs[i] = ex.thaw(f, nil)
		}
		return &StructV{fs}
	case MapV:
		if x.m == nil {
			return x
		}
		ex.objID++
		m := &MapObj{id: ex.objID, typ: x.m.typ}
		for _, en := range x.m.entries {
			m.entries = append(m.entries, MapEntry{ex.thaw(en.key, nil), ex.thaw(en.val, nil)})
		}
		return MapV{m}
	}
	return snap
}
