package main

import (
	"fmt"
	"os"
	"sync/atomic"
	"go/types"
	"math/big"
	"strings"

	"golang.org/x/tools/go/ssa"
)

const rtPkg = repoMod + "/internal/verifrt"

type hashApp struct {
	parts []Region
	out   *Term
	ideal bool
}

type sealApp struct {
	key, nonce Region
	msg        Region
	box        Region // tag||ct
	tag        *Term
}

func (e *Engine) reg(name string, f modelFn) { e.models[name] = f }

func argTerm(ex *Exec, v Value) *Term {
	t, ok := v.(*Term)
	if !ok {
		ex.unsupported("model arg: expected scalar, got %T", v)
	}
	return t
}

func (ex *Exec) argString(v Value) string {
	s, ok := v.(StringV)
	if !ok {
		ex.unsupported("model arg: expected string, got %T", v)
	}
	str, ok := ex.concreteString(s)
	if !ok {
		ex.unsupported("model arg: expected concrete string")
	}
	return str
}

func (ex *Exec) errorString(msg string) Value {
	// builds an *errors.errorString
	ep := ex.eng.pkgs["errors"]
	if ep == nil {
		ex.unsupported("errors package not loaded")
	}
	t := ep.Type("errorString")
	o := ex.newObj(&StructV{[]Value{ex.mkString(msg)}}, "errorString")
	return IfaceV{typ: types.NewPointer(t.Type()), val: Ptr{obj: o}}
}

func (ex *Exec) errorStringV(s StringV) Value {
	ep := ex.eng.pkgs["errors"]
	t := ep.Type("errorString")
	o := ex.newObj(&StructV{[]Value{s}}, "errorString")
	return IfaceV{typ: types.NewPointer(t.Type()), val: Ptr{obj: o}}
}

func (ex *Exec) opaqueString(prefix string) StringV {
	c := ex.ctx
	n := c.Fresh(prefix+"_len", BV(64))
	ex.addAxiom(c.Ult(n, c64(c, 256)))
	return StringV{ex.baseNode(prefix), n}
}

// recordDraw registers a named symbolic value for counterexample output.
func (ex *Exec) recordDraw(d Draw) { ex.draws = append(ex.draws, d) }

func registerModels(e *Engine) {
	registerRT(e)
	registerBuffer(e)
	registerCoop(e)
	registerGuard(e)
	registerFootprint(e)
	registerCrypto(e)
	registerMisc(e)
	registerMore(e)
	registerBig(e)
	registerBytes(e)
	registerTime(e)
	registerStrconv(e)
	registerDist(e)
	registerFS(e)
	registerHTTP(e)
	registerTV(e)
	registerField(e)
	registerEdwards(e)
}

// ---------- verifrt intrinsics ----------

func registerRT(e *Engine) {
	intDraw := func(w int, signedKind string) modelFn {
		return func(ex *Exec, fn *ssa.Function, args []Value) (Value, *PanicV) {
			name := ex.argString(args[0])
			t := ex.ctx.Fresh("d_"+name, BV(w))
			ex.recordDraw(Draw{Name: name, Kind: signedKind, Term: t, Width: w})
			return t, nil
		}
	}
	e.reg(rtPkg+".Int", intDraw(64, "int"))
	e.reg(rtPkg+".Int64", intDraw(64, "int"))
	e.reg(rtPkg+".Uint64", intDraw(64, "uint"))
	e.reg(rtPkg+".Uint32", intDraw(32, "uint"))
	e.reg(rtPkg+".Uint16", intDraw(16, "uint"))
	e.reg(rtPkg+".Byte", intDraw(8, "uint"))
	e.reg(rtPkg+".Bool", func(ex *Exec, fn *ssa.Function, args []Value) (Value, *PanicV) {
		name := ex.argString(args[0])
		t := ex.ctx.Fresh("d_"+name, BoolSort)
		ex.recordDraw(Draw{Name: name, Kind: "bool", Term: t})
		return t, nil
	})
	e.reg(rtPkg+".Real", func(ex *Exec, fn *ssa.Function, args []Value) (Value, *PanicV) {
		name := ex.argString(args[0])
		t := ex.ctx.Fresh("r_"+name, RealSort)
		ex.recordDraw(Draw{Name: name, Kind: "real", Term: t})
		return t, nil
	})
	e.reg(rtPkg+".ImpureCalls", func(ex *Exec, fn *ssa.Function, args []Value) (Value, *PanicV) {
		l, ok := ex.st["purity"].(*[]string)
		if !ok {
			l = &[]string{}
			ex.st["purity"] = l
		}
		return c64(ex.ctx, uint64(len(*l))), nil
	})
	e.reg(rtPkg+".IntRange", func(ex *Exec, fn *ssa.Function, args []Value) (Value, *PanicV) {
		name := ex.argString(args[0])
		lo, hi := argTerm(ex, args[1]), argTerm(ex, args[2])
		t := ex.ctx.Fresh("d_"+name, BV(64))
		ex.recordDraw(Draw{Name: name, Kind: "int", Term: t, Width: 64})
		ex.addPC(ex.ctx.And(ex.ctx.Sle(lo, t), ex.ctx.Sle(t, hi)))
		return t, nil
	})
	// Pick: like IntRange, but the engine case-splits on every value (concrete on each path).
	e.reg(rtPkg+".Pick", func(ex *Exec, fn *ssa.Function, args []Value) (Value, *PanicV) {
		c := ex.ctx
		name := ex.argString(args[0])
		lo, hi := argTerm(ex, args[1]), argTerm(ex, args[2])
		if !lo.isConst || !hi.isConst {
			ex.unsupported("verifrt.Pick with symbolic bounds")
		}
		t := c.Fresh("d_"+name, BV(64))
		ex.recordDraw(Draw{Name: name, Kind: "int", Term: t, Width: 64})
		ex.addPC(c.And(c.Sle(lo, t), c.Sle(t, hi)))
		n := int(hi.Int()-lo.Int()) + 1
		if n <= 0 {
			panic(pathEnd{kind: "infeasible"})
		}
		k := c64(c, uint64(lo.Int()+int64(ex.chooseN(n))))
		ex.addPC(c.Eq(t, k))
		return k, nil
	})
	bytesDraw := func(ex *Exec, name string, n, cp *Term) Value {
		node := ex.baseNode("b_" + name)
		ex.recordDraw(Draw{Name: name, Kind: "bytes", Node: node, Len: n})
		return ex.newByteSlice(node, n, cp)
	}
	e.reg(rtPkg+".Bytes", func(ex *Exec, fn *ssa.Function, args []Value) (Value, *PanicV) {
		name := ex.argString(args[0])
		n := argTerm(ex, args[1])
		if pan := ex.rtCheck(ex.ctx.Ult(n, c64(ex.ctx, 1<<24)), "verifrt.Bytes: length out of range"); pan != nil {
			return nil, pan
		}
		return bytesDraw(ex, name, n, n), nil
	})
	e.reg(rtPkg+".BytesCap", func(ex *Exec, fn *ssa.Function, args []Value) (Value, *PanicV) {
		name := ex.argString(args[0])
		n, cp := argTerm(ex, args[1]), argTerm(ex, args[2])
		if pan := ex.rtCheck(ex.ctx.And(ex.ctx.Ule(n, cp), ex.ctx.Ult(cp, c64(ex.ctx, 1<<24))), "verifrt.BytesCap: bad length/cap"); pan != nil {
			return nil, pan
		}
		return bytesDraw(ex, name, n, cp), nil
	})
	e.reg(rtPkg+".String", func(ex *Exec, fn *ssa.Function, args []Value) (Value, *PanicV) {
		name := ex.argString(args[0])
		n := argTerm(ex, args[1])
		node := ex.baseNode("s_" + name)
		ex.recordDraw(Draw{Name: name, Kind: "string", Node: node, Len: n})
		return StringV{node, n}, nil
	})
	e.reg(rtPkg+".StringIn", func(ex *Exec, fn *ssa.Function, args []Value) (Value, *PanicV) {
		name := ex.argString(args[0])
		n := argTerm(ex, args[1])
		lo, hi := argTerm(ex, args[2]), argTerm(ex, args[3])
		node := ex.baseNode("s_" + name)
		node.pred = func(c *Ctx, e *Term) *Term { return c.And(c.Ule(lo, e), c.Ule(e, hi)) }
		ex.recordDraw(Draw{Name: name, Kind: "string", Node: node, Len: n})
		return StringV{node, n}, nil
	})
	e.reg(rtPkg+".Assume", func(ex *Exec, fn *ssa.Function, args []Value) (Value, *PanicV) {
		t := argTerm(ex, args[0])
		if t.IsFalse() {
			panic(pathEnd{kind: "infeasible"})
		}
		ex.addPC(t)
		return nil, nil
	})
	e.reg(rtPkg+".Assert", func(ex *Exec, fn *ssa.Function, args []Value) (Value, *PanicV) {
		t := argTerm(ex, args[0])
		label := ex.argString(args[1])
		ex.assert(t, label)
		return nil, nil
	})
	e.reg(rtPkg+".Reach", func(ex *Exec, fn *ssa.Function, args []Value) (Value, *PanicV) {
		label := ex.argString(args[0])
		ex.reach(label)
		return nil, nil
	})
	e.reg(rtPkg+".Param", func(ex *Exec, fn *ssa.Function, args []Value) (Value, *PanicV) {
		name := ex.argString(args[0])
		v, ok := ex.param(name)
		if !ok {
			ex.unsupported("missing harness param %s", name)
		}
		return c64(ex.ctx, uint64(int64(v))), nil
	})
	e.reg(rtPkg+".Symbolic", func(ex *Exec, fn *ssa.Function, args []Value) (Value, *PanicV) {
		return ex.ctx.Bool(true), nil
	})
	e.reg(rtPkg+".MayPanic", func(ex *Exec, fn *ssa.Function, args []Value) (Value, *PanicV) {
		_, pan := ex.callAny(args[0], nil, nil)
		return ex.ctx.Bool(pan != nil), nil
	})
	e.reg(rtPkg+".PanicMsg", func(ex *Exec, fn *ssa.Function, args []Value) (Value, *PanicV) {
		_, pan := ex.callAny(args[0], nil, nil)
		if pan == nil {
			return ex.mkString(""), nil
		}
		return ex.mkString(pan.msg), nil
	})
	e.reg(rtPkg+".Witness", func(ex *Exec, fn *ssa.Function, args []Value) (Value, *PanicV) {
		ex.wit = append(ex.wit, argTerm(ex, args[0]))
		return nil, nil
	})
	e.reg(rtPkg+".OnBlocked", func(ex *Exec, fn *ssa.Function, args []Value) (Value, *PanicV) {
		ex.st["onblocked"] = args[0]
		return nil, nil
	})
	e.reg(rtPkg+".Env", func(ex *Exec, fn *ssa.Function, args []Value) (Value, *PanicV) {
		ex.st["env"] = args[0]
		return nil, nil
	})
	e.reg(rtPkg+".Spawn", func(ex *Exec, fn *ssa.Function, args []Value) (Value, *PanicV) {
		_, pan := ex.callAny(args[0], nil, nil)
		return nil, pan
	})
	e.reg(rtPkg+".Block", func(ex *Exec, fn *ssa.Function, args []Value) (Value, *PanicV) {
		ex.blocked(ex.argString(args[0]))
		return nil, nil
	})
	e.reg(rtPkg+".Exit", func(ex *Exec, fn *ssa.Function, args []Value) (Value, *PanicV) {
		panic(pathEnd{kind: "exit"})
	})
	e.reg(rtPkg+".Dump", func(ex *Exec, fn *ssa.Function, args []Value) (Value, *PanicV) {
		name := ex.argString(args[0])
		r := ex.sliceRegion(args[1].(SliceV))
		if !debugEngine {
			return nil, nil
		}
		fmt.Printf("DUMP %s len=%s:", name, ex.ctx.Inline(r.n))
		if r.n.isConst {
			for i := uint64(0); i < r.n.cv && i < 64; i++ {
				fmt.Printf(" %s", ex.ctx.Inline(ex.regAt(r, c64(ex.ctx, i))))
			}
		}
		fmt.Println()
		return nil, nil
	})
	e.reg(rtPkg+".Note", func(ex *Exec, fn *ssa.Function, args []Value) (Value, *PanicV) {
		return nil, nil
	})
	// Equal on byte slices without forking: returns a single boolean term.
	e.reg(rtPkg+".Equal", func(ex *Exec, fn *ssa.Function, args []Value) (Value, *PanicV) {
		a, b := args[0].(SliceV), args[1].(SliceV)
		return ex.regionEq(ex.sliceRegion(a), ex.sliceRegion(b)), nil
	})
	// EqualAt(a, b, n, k): n==len both and a[k]==b[k] for a Skolem index k chosen adversarially.
	e.reg(rtPkg+".EqualSk", func(ex *Exec, fn *ssa.Function, args []Value) (Value, *PanicV) {
		a, b := args[0].(SliceV), args[1].(SliceV)
		return ex.regionEqSkolem(ex.sliceRegion(a), ex.sliceRegion(b)), nil
	})
	// Ite without forking
	e.reg(rtPkg+".IteInt", func(ex *Exec, fn *ssa.Function, args []Value) (Value, *PanicV) {
		return ex.ctx.Ite(argTerm(ex, args[0]), argTerm(ex, args[1]), argTerm(ex, args[2])), nil
	})
	e.reg(rtPkg+".And", func(ex *Exec, fn *ssa.Function, args []Value) (Value, *PanicV) {
		return ex.ctx.And(argTerm(ex, args[0]), argTerm(ex, args[1])), nil
	})
	e.reg(rtPkg+".Or", func(ex *Exec, fn *ssa.Function, args []Value) (Value, *PanicV) {
		return ex.ctx.Or(argTerm(ex, args[0]), argTerm(ex, args[1])), nil
	})
	e.reg(rtPkg+".Implies", func(ex *Exec, fn *ssa.Function, args []Value) (Value, *PanicV) {
		return ex.ctx.Implies(argTerm(ex, args[0]), argTerm(ex, args[1])), nil
	})
}

func (ex *Exec) param(name string) (int, bool) {
	if ex.h == nil {
		return 0, false
	}
	if pt, ok := ex.h.ParamsTier[ex.eng.tier]; ok {
		if v, ok := pt[name]; ok {
			return v, true
		}
	}
	v, ok := ex.h.Params[name]
	return v, ok
}

// regionEqSkolem: for refuting equality the solver must exhibit an index; used in
// assertions (positive occurrences only!): returns len equal ∧ a[k]==b[k] for fresh k<n.
// Sound only as an asserted claim: ¬(result) is satisfiable iff regions can differ.
func (ex *Exec) regionEqSkolem(a, b Region) *Term {
	c := ex.ctx
	if a.node == b.node && a.off == b.off && a.n == b.n {
		return c.Bool(true)
	}
	k := c.Fresh("sk", BV(64))
	ex.recordDraw(Draw{Name: "skolem_index", Kind: "uint", Term: k, Width: 64})
	return c.And(c.Eq(a.n, b.n), c.Or(c.Ule(a.n, k), c.Eq(ex.regAt(a, k), ex.regAt(b, k))))
}

// assert checks PC ⇒ cond.
func (ex *Exec) assert(cond *Term, label string) {
	c := ex.ctx
	if cond.IsTrue() {
		ex.res.TrivAsserts++
		return
	}
	ms := ex.eng.assertMs
	if ex.h.AssertMs > 0 {
		ms = ex.h.AssertMs
	}
	neg := c.Not(cond)
	as := append(append([]*Term{}, ex.pc...), neg)
	var r Result
	if neg.IsFalse() {
		r = Unsat
	} else {
		script := ex.ctx.Script(as, ex.drawTerms())
		r = ex.pool.Check(script, ms, ms*3)
		if r == Unknown {
			// last resort before the run becomes inconclusive (loaded machine): the whole
			// portfolio with ten times the budget
			r = ex.pool.Check(script, ms*3, ms*10)
		}
		if r == Unsat && ex.eng.tier == "thorough" && ex.eng.crossCheck {
			r2, who := ex.pool.CheckBoth(script, 5000) // a second opinion within 5 s; cvc5 not answering in time leaves the z3 verdict
			if r2 != Unsat {
				ex.res.Unknown = append(ex.res.Unknown, "assert-crosscheck:"+label+":"+who)
			} else if who == "z3+cvc5" {
				atomic.AddInt64(&stats.CrossBoth, 1)
			} else {
				atomic.AddInt64(&stats.CrossOne, 1)
			}
		}
	}
	switch r {
	case Unsat:
		ex.res.Asserts++
	case Sat:
		if d := os.Getenv("VERIF_DUMP_VIOL"); d != "" {
			q := ex.ctx.Script(as, ex.drawTerms())
			_ = os.WriteFile(fmt.Sprintf("%s/viol_%s_%d.smt2", d, sanitize(label), len(ex.trace)), []byte(q.Def), 0o644)
		}
		v := &Violation{Harness: ex.h.Name, Kind: "assert", Label: label, Site: ex.frame.fn.String()}
		ex.fillModelFromSession(v)
		ex.res.Violations = append(ex.res.Violations, v)
	default:
		ex.res.Unknown = append(ex.res.Unknown, "assert:"+label+" "+lastSolverError)
	}
	ex.addPC(cond)
}

func (ex *Exec) reach(label string) {
	if _, ok := ex.res.Reached[label]; ok {
		return
	}
	if ex.eng.reachedGlobal(ex.h, label) {
		ex.res.Reached[label] = nil
		return
	}
	script := ex.ctx.Script(ex.pc, ex.drawTerms())
	r := ex.pool.Check(script, ex.eng.assertMs, ex.eng.assertMs*3)
	if r == Sat {
		v := &Violation{}
		ex.fillModelFromSession(v)
		m := map[string]any{"draws": v.Draws}
		ex.res.Reached[label] = m
		ex.eng.markReached(ex.h, label)
	} else if r == Unsat {
		panic(pathEnd{kind: "infeasible"})
	} else {
		ex.res.Unknown = append(ex.res.Unknown, "branch")
	}
}

func (ex *Exec) drawTerms() []*Term {
	var ts []*Term
	for _, d := range append(append([]Draw{}, ex.draws...), ex.tape...) {
		if d.Term != nil {
			ts = append(ts, d.Term)
		}
		if d.Len != nil {
			ts = append(ts, d.Len)
		}
		if d.Node != nil && d.Node.kind == bBase {
			ts = append(ts, d.Node.arr)
		}
	}
	return ts
}

// fillModel solves PC (∧ extra) again to obtain a model.
func (ex *Exec) fillModel(v *Violation, extra *Term) {
	as := append([]*Term{}, ex.pc...)
	if extra != nil {
		as = append(as, extra)
	}
	script := ex.ctx.Script(as, ex.drawTerms())
	r := ex.pool.Check(script, ex.eng.assertMs, ex.eng.assertMs*3)
	if r != Sat {
		v.Extra = map[string]interface{}{"model": "unavailable: " + r.String()}
		return
	}
	ex.fillModelFromSession(v)
}

func (ex *Exec) evalDraws(ds []Draw) []map[string]any {
	c := ex.ctx
	var out []map[string]any
	for _, d := range ds {
		m := map[string]any{"name": d.Name, "kind": d.Kind}
		switch d.Kind {
		case "bytes", "string":
			vals, err := ex.pool.GetValues([]string{c.Inline(d.Len)})
			if err != nil {
				m["error"] = err.Error()
				out = append(out, m)
				continue
			}
			nv, _ := parseValue(vals[0])
			n := 0
			if nv != nil {
				n = int(nv.Int64())
			}
			if n > 1<<17 {
				n = 1 << 17
			}
			m["len"] = n
			if n > 0 {
				exprs := make([]string, n)
				for i := 0; i < n; i++ {
					exprs[i] = c.Inline(ex.sel(d.Node, c64(c, uint64(i))))
				}
				bv, err := ex.pool.GetValues(exprs)
				if err != nil {
					m["error"] = err.Error()
				} else {
					var sb strings.Builder
					for _, s := range bv {
						x, _ := parseValue(s)
						if x == nil {
							x = big.NewInt(0)
						}
						fmt.Fprintf(&sb, "%02x", x.Int64()&0xff)
					}
					m["hex"] = sb.String()
				}
			} else {
				m["hex"] = ""
			}
		default:
			vals, err := ex.pool.GetValues([]string{c.Inline(d.Term)})
			if err != nil {
				m["error"] = err.Error()
			} else if x, ok := parseValue(vals[0]); ok {
				if d.Kind == "int" && d.Width > 0 && x.Bit(d.Width-1) == 1 {
					x.Sub(x, new(big.Int).Lsh(big.NewInt(1), uint(d.Width)))
				}
				if d.Kind == "bool" {
					m["value"] = x.Sign() != 0
				} else {
					m["value"] = x.String()
				}
			} else {
				m["value"] = vals[0]
			}
			if d.Term != nil && d.Len != nil {
				// intn draw: remember modulus
				vals, err := ex.pool.GetValues([]string{c.Inline(d.Len)})
				if err == nil {
					if x, ok := parseValue(vals[0]); ok {
						m["n"] = x.String()
					}
				}
			}
		}
		out = append(out, m)
	}
	return out
}

func (ex *Exec) fillModelFromSession(v *Violation) {
	v.Draws = ex.evalDraws(ex.draws)
	if len(ex.tape) > 0 {
		if v.Extra == nil {
			v.Extra = map[string]interface{}{}
		}
		v.Extra["tape"] = ex.evalDraws(ex.tape)
	}
}

// ---------- model objects: dispatch ----------

func modelImplements(mt *modelType, iface *types.Interface) bool {
	have := modelMethods[mt.name]
	for i := 0; i < iface.NumMethods(); i++ {
		if !have[iface.Method(i).Name()] {
			return false
		}
	}
	return true
}

var modelMethods = map[string]map[string]bool{
	"hash":         {"Write": true, "Sum": true, "Reset": true, "Size": true, "BlockSize": true},
	"hash64":       {"Write": true, "Sum": true, "Reset": true, "Size": true, "BlockSize": true, "Sum64": true},
	"stream":       {"XORKeyStream": true},
	"block":        {"BlockSize": true, "Encrypt": true, "Decrypt": true},
	"reader":       {"Read": true},
	"runtime.Error": {"Error": true, "RuntimeError": true},
	"httpbody":      {"Read": true, "Close": true},
}

func (ex *Exec) modelInvoke(mt *modelType, mo *ModelObj, method string, args []Value) (Value, *PanicV) {
	ex.res.Models["model:"+mt.name+"."+method] = true
	switch mt.name {
	case "hash", "hash64":
		return ex.hashInvoke(mo, method, args)
	case "stream":
		return ex.streamInvoke(mo, method, args)
	case "reader":
		return ex.readerInvoke(mo, method, args)
	case "runtime.Error":
		if method == "Error" {
			return mo.state["msg"], nil
		}
	case "httpbody":
		if method == "Close" {
			return nilErr(), nil
		}
	case "block":
		if method == "BlockSize" {
			return c64(ex.ctx, 16), nil
		}
	}
	ex.unsupported("model method %s.%s", mt.name, method)
	return nil, nil
}
