package main

// Cooperative scheduler for the goroutines of the code under analysis (harness option
// "coop"): every `go` statement becomes a task with its own interpreter stack (run on its own
// Go goroutine of the engine, exactly one of which holds the baton at any time). Tasks are
// started and resumed by (*sync.WaitGroup).Wait of the parent. A task gives up the baton
//
//   - when it blocks (verifrt.BlockUntil: a Read on an idle scripted connection) - it becomes
//     runnable again once its wake-up condition holds (the connection was closed);
//   - at a pre-emption point (verifrt.Yield, placed at the entry of every scripted connection
//     operation) if the path's pre-emption budget (harness option "preempt") allows: a 2-way
//     recorded decision "continue / switch".
//
// Which runnable task gets the baton is a recorded n-way decision, so all interleavings at
// these points within the pre-emption bound are explored like any other branch. If no task is
// runnable and not all are done the OnBlocked callback runs and the path ends "blocked".

import (
	"strings"

	"golang.org/x/tools/go/ssa"
)

const (
	coNew = iota
	coReady
	coBlocked
	coDone
)

type coTask struct {
	id      int
	fn      Value
	args    []Value
	resume  chan bool
	state   int
	started bool
	cond    Value
	why     string
	frame   *Frame
	depth   int
}

type coEvent struct {
	kind int // 0 yielded, 1 done, 2 Go panic (pathEnd or engine error)
	pan  *PanicV
	rec  interface{}
}

type coSched struct {
	tasks         []*coTask
	cur           *coTask
	events        chan coEvent
	budget        int
	lastPreempted *coTask
}

type coAbortT struct{}

func (ex *Exec) coop() bool { return ex.h != nil && ex.h.Coop }

func (ex *Exec) coSched() *coSched {
	s, _ := ex.st["co"].(*coSched)
	if s == nil {
		s = &coSched{events: make(chan coEvent), budget: ex.h.Preempt}
		if v, ok := ex.param("preempt"); ok {
			s.budget = v
		}
		ex.st["co"] = s
	}
	return s
}

func (ex *Exec) coSpawn(fv Value, args []Value) {
	s := ex.coSched()
	s.tasks = append(s.tasks, &coTask{id: len(s.tasks) + 1, fn: fv, args: args, resume: make(chan bool)})
}

func (ex *Exec) coRunnable(t *coTask) bool {
	switch t.state {
	case coNew, coReady:
		return true
	case coBlocked:
		if t.cond == nil {
			return false
		}
		r, pan := ex.callAny(t.cond, nil, nil)
		if pan != nil {
			ex.unsupported("panic in a BlockUntil condition: %s", pan.msg)
		}
		b, ok := r.(*Term)
		if !ok {
			ex.unsupported("BlockUntil condition returned %T", r)
		}
		return ex.branch(b)
	}
	return false
}

// coRun is the scheduler loop (runs on the parent's stack, inside WaitGroup.Wait).
func (ex *Exec) coRun() *PanicV {
	s := ex.coSched()
	for {
		var run []*coTask
		var waiting []string
		allDone := true
		for _, t := range s.tasks {
			if t.state != coDone {
				allDone = false
			}
			if ex.coRunnable(t) {
				run = append(run, t)
			} else if t.state == coBlocked {
				waiting = append(waiting, t.why)
			}
		}
		if allDone {
			return nil
		}
		if len(run) == 0 {
			ex.blocked(strings.Join(waiting, "; "))
		}
		cand := run
		if s.lastPreempted != nil && len(run) > 1 {
			cand = nil
			for _, t := range run {
				if t != s.lastPreempted {
					cand = append(cand, t)
				}
			}
		}
		s.lastPreempted = nil
		t := cand[ex.chooseN(len(cand))]
		ev := ex.coSwitchTo(s, t)
		switch ev.kind {
		case 1:
			t.state = coDone
			if ev.pan != nil {
				return ev.pan
			}
		case 2:
			t.state = coDone
			panic(ev.rec)
		}
	}
}

func (ex *Exec) coSwitchTo(s *coSched, t *coTask) coEvent {
	savedFrame, savedDepth := ex.frame, ex.depth
	s.cur = t
	ex.st["cur_goroutine"] = t.id
	if !t.started {
		t.started = true
		t.state = coReady
		go ex.coBody(s, t)
	}
	ex.frame, ex.depth = t.frame, t.depth
	t.resume <- true
	ev := <-s.events
	ex.frame, ex.depth = savedFrame, savedDepth
	s.cur = nil
	ex.st["cur_goroutine"] = 0
	return ev
}

func (ex *Exec) coBody(s *coSched, t *coTask) {
	defer func() {
		if r := recover(); r != nil {
			if _, ok := r.(coAbortT); ok {
				return
			}
			s.events <- coEvent{kind: 2, rec: r}
		}
	}()
	if !<-t.resume {
		return
	}
	_, pan := ex.callAny(t.fn, t.args, nil)
	s.events <- coEvent{kind: 1, pan: pan}
}

// coYield hands the baton back to the scheduler (called on the task's own stack).
func (ex *Exec) coYield(s *coSched, t *coTask, state int, cond Value, why string) {
	t.state, t.cond, t.why = state, cond, why
	t.frame, t.depth = ex.frame, ex.depth
	s.events <- coEvent{kind: 0}
	if !<-t.resume {
		panic(coAbortT{})
	}
	t.state = coReady
}

// coAbortAll releases the parked tasks of a finished path.
func (ex *Exec) coAbortAll() {
	s, _ := ex.st["co"].(*coSched)
	if s == nil {
		return
	}
	for _, t := range s.tasks {
		if t.started && t.state != coDone && t != s.cur {
			t.state = coDone
			t.resume <- false
		}
	}
}

func registerCoop(e *Engine) {
	// BlockUntil(cond, what): the caller cannot proceed until cond() holds.
	e.reg(rtPkg+".BlockUntil", func(ex *Exec, fn *ssa.Function, args []Value) (Value, *PanicV) {
		what := ex.argString(args[1])
		if s, _ := ex.st["co"].(*coSched); s != nil && s.cur != nil {
			t := s.cur
			for {
				ex.coYield(s, t, coBlocked, args[0], what)
				// resumed by the scheduler because cond() held
				return nil, nil
			}
		}
		ex.blocked(what)
		return nil, nil
	})
	// BlockedReason(): inside an OnBlocked callback, what the execution is blocked on.
	e.reg(rtPkg+".BlockedReason", func(ex *Exec, fn *ssa.Function, args []Value) (Value, *PanicV) {
		r, _ := ex.st["blocked_reason"].(string)
		return ex.mkString(r), nil
	})
	// Yield(what): a pre-emption point.
	e.reg(rtPkg+".Yield", func(ex *Exec, fn *ssa.Function, args []Value) (Value, *PanicV) {
		s, _ := ex.st["co"].(*coSched)
		if s == nil || s.cur == nil || s.budget <= 0 {
			return nil, nil
		}
		t := s.cur
		other := false
		for _, u := range s.tasks {
			if u != t && ex.coRunnable(u) {
				other = true
				break
			}
		}
		if !other {
			return nil, nil
		}
		if ex.chooseN(2) == 1 {
			s.budget--
			s.lastPreempted = t
			ex.coYield(s, t, coReady, nil, "")
		}
		return nil, nil
	})
}
