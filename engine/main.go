package main

import (
	"runtime/debug"
	"runtime/pprof"
	"encoding/json"
	"flag"
	"fmt"
	"os"
	"os/exec"
	"path/filepath"
	"runtime"
	"sort"
	"strconv"
	"strings"
	"sync"
	"sync/atomic"
	"time"
)

type fsModel struct{}

var reachedMu sync.Mutex
var reachedSet = map[string]bool{}

func (e *Engine) reachedGlobal(h *HarnessCfg, label string) bool {
	reachedMu.Lock()
	defer reachedMu.Unlock()
	return reachedSet[h.Name+"/"+label]
}
func (e *Engine) markReached(h *HarnessCfg, label string) {
	reachedMu.Lock()
	reachedSet[h.Name+"/"+label] = true
	reachedMu.Unlock()
}

var noteMu sync.Mutex
var globalNotes = map[string]bool{}

func (e *Engine) noteOnce(s string) {
	noteMu.Lock()
	globalNotes[s] = true
	noteMu.Unlock()
}

func usage() {
	fmt.Fprintln(os.Stderr, "usage: gosmt check <property> <quick|thorough> [-only harness] | gosmt replay <file> | gosmt selfcheck")
	os.Exit(2)
}

func main() {
	if len(os.Args) < 2 {
		usage()
	}
	switch os.Args[1] {
	case "check":
		os.Exit(cmdCheck(os.Args[2:]))
	case "replay":
		os.Exit(cmdReplay(os.Args[2:]))
	case "selfcheck":
		os.Exit(cmdSelfcheck(os.Args[2:]))
	default:
		usage()
	}
}

func envOr(k, d string) string {
	if v := os.Getenv(k); v != "" {
		return v
	}
	return d
}

type KnownFinding struct {
	Status   string      `json:"status"` // known | fixed
	Property string      `json:"property"`
	Harness  string      `json:"harness"`
	Label    string      `json:"label"` // substring of violation label
	Where    []KnownPred `json:"where"`
	What     string      `json:"what"`
	Commit   string      `json:"commit,omitempty"`
}

type KnownPred struct {
	Draw  string `json:"draw"`
	Op    string `json:"op"`
	Value string `json:"value"`
}

type KnownFile struct {
	Findings []KnownFinding `json:"findings"`
}

func loadKnown(verifDir string) *KnownFile {
	kf := &KnownFile{}
	b, err := os.ReadFile(filepath.Join(verifDir, "known_findings.json"))
	if err != nil {
		return kf
	}
	_ = json.Unmarshal(b, kf)
	return kf
}

func (k *KnownFinding) matches(v *Violation) bool {
	if k.Status != "known" || k.Harness != v.Harness || !strings.Contains(v.Label, k.Label) {
		return false
	}
	for _, p := range k.Where {
		found := false
		for _, d := range v.Draws {
			if d["name"] != p.Draw {
				continue
			}
			found = true
			var have string
			switch x := d["value"].(type) {
			case string:
				have = x
			case bool:
				have = strconv.FormatBool(x)
			default:
				if l, ok := d["len"]; ok && p.Value != "" {
					have = fmt.Sprint(l)
				}
			}
			hv, err1 := strconv.ParseInt(have, 10, 64)
			wv, err2 := strconv.ParseInt(p.Value, 10, 64)
			ok := false
			if err1 == nil && err2 == nil {
				switch p.Op {
				case "==":
					ok = hv == wv
				case "!=":
					ok = hv != wv
				case "<":
					ok = hv < wv
				case "<=":
					ok = hv <= wv
				case ">":
					ok = hv > wv
				case ">=":
					ok = hv >= wv
				}
			} else {
				ok = (p.Op == "==" && have == p.Value) || (p.Op == "!=" && have != p.Value)
			}
			if !ok {
				return false
			}
			break
		}
		if !found {
			return false
		}
	}
	return true
}

func cmdCheck(args []string) int {
	fs := flag.NewFlagSet("check", flag.ExitOnError)
	only := fs.String("only", "", "run only this harness")
	workers := fs.Int("j", 0, "workers")
	noReplay := fs.Bool("noreplay", false, "skip native replay")
	verbose := fs.Bool("v", false, "verbose")
	fs.BoolVar(&debugEngine, "debug", false, "crash on engine errors")
	fs.BoolVar(&progress, "progress", false, "print every path")
	fs.BoolVar(&traceBranches, "tracebranches", false, "print symbolic branch decisions")
	pfxFlag := fs.String("prefix", "", "start from this decision prefix (comma separated)")
	cpuprof := fs.String("cpuprofile", "", "write cpu profile")
	fs.BoolVar(&debugSolver, "debugsolver", false, "print solver errors")
	if len(args) < 2 {
		usage()
	}
	prop, tier := args[0], args[1]
	_ = fs.Parse(args[2:])
	if tier != "quick" && tier != "thorough" {
		usage()
	}
	if *pfxFlag != "" {
		for _, x := range strings.Split(*pfxFlag, ",") {
			v, _ := strconv.Atoi(x)
			startPrefix = append(startPrefix, v)
		}
	}
	if *cpuprof != "" {
		f, _ := os.Create(*cpuprof)
		pprof.StartCPUProfile(f)
		defer pprof.StopCPUProfile()
	}
	verifDir := envOr("VERIF_DIR", "/verif")
	repoDir := envOr("VERIF_REPO", "/repo")
	start := time.Now()
	seed, _ := strconv.Atoi(envOr("VERIF_SEED", "0"))

	pc, err := loadPropCfg(filepath.Join(verifDir, "harness", prop+".json"))
	if err != nil {
		fmt.Printf("INCONCLUSIVE property=%s reason=config: %v\n", prop, err)
		return 2
	}
	if *workers == 0 {
		*workers = runtime.NumCPU()
	}
	known := loadKnown(verifDir)
	var results []*HarnessResult
	var inconcl []string
	var violations []*Violation
	var knownHits []string
	var eng *Engine
	tvCompared := 0
	cfgs := []*PropCfg{pc}
	for _, a := range pc.Also {
		apc, err := loadPropCfg(filepath.Join(verifDir, "harness", a+".json"))
		if err != nil {
			fmt.Printf("INCONCLUSIVE property=%s reason=config: %v\n", prop, err)
			return 2
		}
		cfgs = append(cfgs, apc)
		pc.Harnesses = append(pc.Harnesses, apc.Harnesses...)
	}
	hcfg := map[string]*PropCfg{}
	for ci, cpc := range cfgs {
		hs := cpc.Harnesses
		if ci == 0 {
			hs = hs[:len(hs)-countAlso(cfgs)]
		}
		sub := *cpc
		sub.Harnesses = hs
		for _, h := range hs {
			hcfg[h.Name] = &sub
		}
		eng, err = loadEngine(repoDir, verifDir, &sub)
		if err != nil {
			fmt.Printf("INCONCLUSIVE property=%s reason=load: %v\n", prop, err)
			writeEvidence(verifDir, prop, tier, seed, nil, pc, nil, time.Since(start), []string{"load: " + err.Error()}, 0, nil)
			return 2
		}
		eng.tier = tier
		// the loaded program is a large, static heap: collect rarely
		debug.SetGCPercent(1000)
		debug.SetMemoryLimit(40 << 30)
		if tier == "thorough" {
			eng.assertMs = 60000
			eng.branchMs = 5000
			eng.branchSlowMs = 60000
			eng.crossCheck = true
		}
		if ci == 0 && *only == "" {
			// translator / model validation against the native build (every run)
			golden, gerr := tvGolden(repoDir, verifDir)
			if gerr != nil {
				inconcl = append(inconcl, "translator validation: "+gerr.Error())
			} else {
				n, bad := eng.runTV(golden)
				tvCompared = n
				for _, b := range bad {
					inconcl = append(inconcl, "translator validation mismatch: "+b)
				}
			}
		}
		for _, h := range hs {
			if !tierMatch(h, tier) || (*only != "" && h.Name != *only) {
				continue
			}
			hr := eng.runHarness(h, *workers)
			results = append(results, hr)
			if *verbose {
				fmt.Printf("harness %-28s paths=%d ends=%v asserts=%d(+%d trivial) viol=%d wall=%.1fs\n", h.Name, hr.Paths, hr.Ends, hr.Asserts, hr.TrivAsserts, len(hr.Violations), hr.Wall.Seconds())
				for m, n := range hr.EndMsgs {
					fmt.Printf("    end: %s (x%d)\n", m, n)
				}
				for _, v := range hr.Violations {
					var ints []string
					for _, d := range v.Draws {
						if d["kind"] == "int" {
							ints = append(ints, fmt.Sprintf("%v=%v", d["name"], d["value"]))
						}
					}
					fmt.Printf("    violation: %s %q trace=%v %s\n", v.Kind, v.Label, v.Trace, strings.Join(ints, " "))
				}
			}
			for _, m := range hr.Inconcl {
				inconcl = append(inconcl, h.Name+": "+m)
			}
			// dedupe violations by label
			seen := map[string]bool{}
			for _, v := range hr.Violations {
				key := v.Kind + "|" + v.Label
				isKnown := false
				for i := range known.Findings {
					k := &known.Findings[i]
					if k.Property == prop && k.matches(v) {
						isKnown = true
						msg := fmt.Sprintf("KNOWN-FINDING: property=%s %s", prop, k.What)
						dup := false
						for _, x := range knownHits {
							if x == msg {
								dup = true
							}
						}
						if !dup {
							knownHits = append(knownHits, msg)
						}
					}
				}
				if isKnown || seen[key] {
					continue
				}
				seen[key] = true
				violations = append(violations, v)
			}
		}
	}
	for _, m := range knownHits {
		fmt.Println(m)
	}
	// replay
	exit := 0
	nReplays := 0
	var confirmed []*Violation
	os.MkdirAll(filepath.Join(verifDir, "replays", prop), 0o755)
	for n, v := range violations {
		path := filepath.Join(verifDir, "replays", prop, fmt.Sprintf("%s-%d.json", v.Harness, n))
		if v.Extra == nil {
			v.Extra = map[string]interface{}{}
		}
		v.Extra["property"] = prop
		b, _ := json.MarshalIndent(v, "", " ")
		_ = os.WriteFile(path, b, 0o644)
		var h *HarnessCfg
		for _, x := range pc.Harnesses {
			if x.Name == v.Harness {
				h = x
			}
		}
		status := "not-run"
		if !*noReplay && h != nil && !h.NoReplay {
			nReplays++
			rpc := pc
			if x, ok := hcfg[h.Name]; ok {
				rpc = x
			}
			status = nativeReplay(repoDir, verifDir, rpc, h, path, tier)
		} else if h != nil && h.NoReplay {
			status = "not-applicable: " + h.ReplayNote
		}
		fmt.Printf("counterexample harness=%s kind=%s label=%q native-replay=%s\n", v.Harness, v.Kind, v.Label, status)
		if strings.HasPrefix(status, "not-reproduced") && h != nil && h.ReplayOptional {
			status = "solver-decided; native run cannot force every model choice (" + h.ReplayNote + "): " + status
		} else if strings.HasPrefix(status, "not-reproduced") {
			inconcl = append(inconcl, fmt.Sprintf("%s: unconfirmed counterexample for %q (%s); replay=%s", v.Harness, v.Label, status, path))
			continue
		}
		v.Extra["native_replay"] = status
		confirmed = append(confirmed, v)
		fmt.Printf("VIOLATION property=%s replay=%s\n", prop, path)
		exit = 1
	}
	if exit == 0 && len(inconcl) > 0 {
		sort.Strings(inconcl)
		for _, m := range inconcl {
			fmt.Printf("INCONCLUSIVE property=%s reason=%s\n", prop, m)
		}
		exit = 2
	}
	nativeConfirmed = 0
	for _, v := range confirmed {
		if st, _ := v.Extra["native_replay"].(string); strings.HasPrefix(st, "confirmed") {
			nativeConfirmed++
		}
	}
	tvTotal = tvCompared
	writeEvidence(verifDir, prop, tier, seed, eng, pc, results, time.Since(start), inconcl, len(confirmed), knownHits)
	if exit == 0 {
		nA, nP := 0, 0
		for _, r := range results {
			nA += r.Asserts
			nP += r.Paths
		}
		fmt.Printf("OK property=%s tier=%s harnesses=%d paths=%d assertion-queries-unsat=%d solver-queries=%d wall=%.1fs\n", prop, tier, len(results), nP, nA, atomic.LoadInt64(&stats.Queries), time.Since(start).Seconds())
	}
	return exit
}

var tvTotal, nativeConfirmed int

func writeEvidence(verifDir, prop, tier string, seed int, eng *Engine, pc *PropCfg, results []*HarnessResult, wall time.Duration, inconcl []string, nviol int, knownHits []string) {
	states, trans := 0, int64(0)
	asserts := 0
	var samples []interface{}
	funcs := map[string]int{}
	models := map[string]bool{}
	var harnessInfo []map[string]interface{}
	replays := tvTotal + nativeConfirmed
	for _, r := range results {
		states += r.Paths
		trans += r.Steps
		asserts += r.Asserts
		for k, v := range r.Funcs {
			if strings.Contains(k, "obfs4.git") {
				funcs[k] = v
			}
		}
		for k := range r.Models {
			models[k] = true
		}
		var labels []string
		for l := range r.Reached {
			labels = append(labels, l)
		}
		sort.Strings(labels)
		for _, l := range labels {
			if m := r.Reached[l]; m != nil && len(samples) < 12 {
				samples = append(samples, map[string]interface{}{"harness": r.Cfg.Name, "reach": l, "witness": m})
			}
		}
		hi := map[string]interface{}{
			"name": r.Cfg.Name, "lemma": r.Cfg.Lemma, "func": r.Cfg.Pkg + "." + r.Cfg.Func,
			"paths": r.Paths, "path_ends": r.Ends, "ssa_instructions_executed": r.Steps,
			"assertion_queries_unsat": r.Asserts, "assertions_folded_true": r.TrivAsserts,
			"violations": len(r.Violations), "reach_labels": labels, "unwind_bound": r.Cfg.Unwind,
			"params": mergedParams(r.Cfg, tier), "wall_s": r.Wall.Seconds(), "assumptions": r.Cfg.Assumptions,
		}
		var notes []string
		for n := range r.Notes {
			notes = append(notes, n)
		}
		sort.Strings(notes)
		hi["notes"] = notes
		harnessInfo = append(harnessInfo, hi)
	}
	if len(samples) == 0 {
		samples = append(samples, map[string]interface{}{"note": "no reach witness recorded"})
	}
	var fl []map[string]interface{}
	var names []string
	for k := range funcs {
		names = append(names, k)
	}
	sort.Strings(names)
	for _, k := range names {
		fl = append(fl, map[string]interface{}{"name": trimPkg(k), "ssa_instructions": funcs[k]})
	}
	var ml []string
	for k := range models {
		ml = append(ml, k)
	}
	sort.Strings(ml)
	st := map[string]interface{}{}
	stats.mu.Lock()
	for k, v := range stats.TimeNs {
		st[k] = map[string]interface{}{"queries": atomic.LoadInt64(stats.ByBackend[k]), "time_s": float64(atomic.LoadInt64(v)) / 1e9}
	}
	stats.mu.Unlock()
	assumptions := append([]string{}, pc.Assumptions...)
	assumptions = append(assumptions,
		"cryptographic primitives are uninterpreted functions (functional congruence; collision-freeness only where a harness states it)",
		"Go runtime, standard library and third-party dependencies outside the listed functions are modelled by contract stubs (models_used)",
		"goroutines are sequentialised at visible operations; no pre-emption inside function bodies",
		"append() reallocations get exactly the needed capacity",
	)
	noteMu.Lock()
	for n := range globalNotes {
		assumptions = append(assumptions, n)
	}
	noteMu.Unlock()
	if states == 0 {
		states = 1
	}
	if trans == 0 {
		trans = 1
	}
	ev := map[string]interface{}{
		"property_id": prop, "tier": tier, "seed": seed, "level": "model_checking",
		"coverage": map[string]interface{}{
			"states": states, "transitions": trans, "traces_validated_against_impl": replays,
			"samples": samples, "exhaustive": false,
			"explanation":      "states = feasible symbolic paths explored (each covers all concrete inputs satisfying its path condition); transitions = go/ssa instructions executed symbolically; every assertion on every path was discharged by an SMT query (unsat) within the stated bounds",
			"functions_encoded": fl, "models_used": ml, "harnesses": harnessInfo,
			"bounds": pc.Bounds, "outside_claim": pc.Outside,
			"queries": map[string]interface{}{"total": atomic.LoadInt64(&stats.Queries), "sat": atomic.LoadInt64(&stats.Sat), "unsat": atomic.LoadInt64(&stats.Unsat), "unknown": atomic.LoadInt64(&stats.Unknown), "assertion_queries_unsat": asserts, "solver_errors": atomic.LoadInt64(&stats.Errors), "crosschecked_both_families": atomic.LoadInt64(&stats.CrossBoth), "crosscheck_second_family_no_answer": atomic.LoadInt64(&stats.CrossOne)},
			"solver_time": st, "inconclusive": inconcl, "known_findings_hit": knownHits,
			"translator_validation": map[string]interface{}{"observations_identical_native_vs_engine": tvTotal, "programs": tvNames(), "what": "rt/verifrt/tv.go programs (integer/slice/map/defer semantics, bytes.Buffer, time, UTF-8 iteration, text encoders, fmt, errors.Is/As, net errors, field arithmetic incl. SqrtRatio, net.IP) run natively and by the engine with concrete values; observation lists compared"},
			"native_replays_confirmed": nativeConfirmed,
		},
		"assumptions": assumptions, "wall_s": wall.Seconds(), "violations": nviol,
	}
	if eng != nil {
		ev["coverage"].(map[string]interface{})["encoding_regenerated_from"] = eng.repoDir + " working tree (go/packages + go/ssa), load " + fmt.Sprintf("%.1fs", eng.loadTime.Seconds())
	}
	os.MkdirAll(filepath.Join(verifDir, "evidence"), 0o755)
	b, _ := json.MarshalIndent(ev, "", " ")
	_ = os.WriteFile(filepath.Join(verifDir, "evidence", prop+".json"), b, 0o644)
}

func countAlso(cfgs []*PropCfg) int {
	n := 0
	for _, c := range cfgs[1:] {
		n += len(c.Harnesses)
	}
	return n
}

func mergedParams(h *HarnessCfg, tier string) map[string]int {
	m := map[string]int{}
	for k, v := range h.Params {
		m[k] = v
	}
	for k, v := range h.ParamsTier[tier] {
		m[k] = v
	}
	return m
}

// ---------- native replay ----------

func pkgDir(pkg string) string {
	return strings.TrimPrefix(strings.TrimPrefix(pkg, repoMod), "/")
}

func nativeReplay(repoDir, verifDir string, pc *PropCfg, h *HarnessCfg, cexPath, tier string) string {
	tmp, err := os.MkdirTemp("", "verifreplay")
	if err != nil {
		return "not-run: " + err.Error()
	}
	defer os.RemoveAll(tmp)
	ov, err := buildOverlay(repoDir, verifDir, pc)
	if err != nil {
		return "not-run: " + err.Error()
	}
	// test driver in the harness package
	dir := pkgDir(h.Pkg)
	pkgName := filepath.Base(dir)
	if dir == "obfs4proxy" {
		pkgName = "main"
	}
	if h.Pkg == repoMod+"/common/log" {
		pkgName = "log"
	}
	var sb strings.Builder
	sb.WriteString("//go:build verif\n\npackage " + pkgName + "\n\nimport (\n\t\"testing\"\n\t\"" + rtPkg + "\"\n)\n\n")
	sb.WriteString("func TestVerifReplay(t *testing.T) {\n\tverifrt.RunReplay(t, map[string]func(){\n")
	for _, x := range pc.Harnesses {
		if x.Pkg == h.Pkg {
			fmt.Fprintf(&sb, "\t\t%q: %s,\n", x.Func, x.Func)
		}
	}
	sb.WriteString("\t})\n}\n")
	ov[filepath.Join(repoDir, dir, "zz_verif_replay_test.go")] = []byte(sb.String())
	repl := map[string]string{}
	n := 0
	for virt, content := range ov {
		n++
		real := filepath.Join(tmp, fmt.Sprintf("f%d.go", n))
		if err := os.WriteFile(real, content, 0o644); err != nil {
			return "not-run: " + err.Error()
		}
		repl[virt] = real
	}
	ovb, _ := json.Marshal(map[string]interface{}{"Replace": repl})
	ovPath := filepath.Join(tmp, "overlay.json")
	_ = os.WriteFile(ovPath, ovb, 0o644)
	params, _ := json.Marshal(mergedParams(h, tier))
	cmd := exec.Command("go", "test", "-tags", "verif", "-vet=off", "-v", "-count=1", "-overlay", ovPath, "-run", "^TestVerifReplay$", "-timeout", "120s", "./"+dir)
	cmd.Dir = repoDir
	cmd.Env = append(os.Environ(), "GOFLAGS=-mod=mod", "GOPROXY=off", "GOSUMDB=off", "GOTOOLCHAIN=local",
		"VERIF_REPLAY="+cexPath, "VERIF_HARNESS="+h.Func, "VERIF_PARAMS="+string(params))
	out, _ := cmd.CombinedOutput()
	s := string(out)
	if os.Getenv("VERIF_REPLAY_LOG") != "" {
		fmt.Println(s)
	}
	for _, line := range strings.Split(s, "\n") {
		if strings.HasPrefix(line, "VERIF-REPLAY: CONFIRMED") {
			return "confirmed (" + strings.TrimSpace(strings.TrimPrefix(line, "VERIF-REPLAY: CONFIRMED")) + ")"
		}
	}
	for _, line := range strings.Split(s, "\n") {
		if strings.HasPrefix(line, "VERIF-REPLAY:") {
			return "not-reproduced (" + strings.TrimSpace(strings.TrimPrefix(line, "VERIF-REPLAY:")) + ")"
		}
	}
	tail := s
	if len(tail) > 400 {
		tail = tail[len(tail)-400:]
	}
	return "not-reproduced (no verdict; output tail: " + strings.ReplaceAll(tail, "\n", " | ") + ")"
}

func cmdReplay(args []string) int {
	if len(args) < 1 {
		usage()
	}
	verifDir := envOr("VERIF_DIR", "/verif")
	repoDir := envOr("VERIF_REPO", "/repo")
	b, err := os.ReadFile(args[0])
	if err != nil {
		fmt.Println(err)
		return 2
	}
	var v Violation
	if err := json.Unmarshal(b, &v); err != nil {
		fmt.Println(err)
		return 2
	}
	prop, _ := v.Extra["property"].(string)
	pc, err := loadPropCfg(filepath.Join(verifDir, "harness", prop+".json"))
	if err != nil {
		fmt.Println(err)
		return 2
	}
	for _, h := range pc.Harnesses {
		if h.Name == v.Harness {
			st := nativeReplay(repoDir, verifDir, pc, h, args[0], "quick")
			fmt.Println("native-replay:", st)
			if strings.HasPrefix(st, "confirmed") {
				fmt.Printf("VIOLATION property=%s replay=%s\n", prop, args[0])
				return 1
			}
			return 0
		}
	}
	fmt.Println("harness not found")
	return 2
}
