package main

// Lazy functional byte arrays. A BNode describes the content of a byte object;
// sel() turns (node, index) into a quantifier-free BV8 term.

import "fmt"

type bKind int

const (
	bBase  bKind = iota // uninterpreted array variable
	bZero               // all zero
	bLit                // literal bytes (zero beyond)
	bStore              // a with [i]=v
	bCopy               // dst with [dOff,dOff+n) = src[sOff..]
	bBV                 // bytes of a bit-vector term
	bShift              // a shifted: [i] = a[off+i]
	bXorKS              // dst with [dOff,dOff+n) = src[sOff+j] ^ KS(sid, pos+j)
	bFn                 // content given by a UF of the index: [i] = f(id, i)
)

type BNode struct {
	kind bKind
	id   int
	arr  *Term
	lit  []byte
	a    *BNode
	src  *BNode
	i, v *Term
	dOff *Term
	sOff *Term
	n    *Term
	bv   *Term
	nb   int
	be   bool
	off  *Term
	sid  *Term // keystream id
	pos  *Term
	// element predicate for base arrays: returns constraint on an element.
	pred func(c *Ctx, e *Term) *Term
	name string
}

var bnodeCounter int

func (ex *Exec) newNode(n *BNode) *BNode {
	ex.nodeID++
	n.id = ex.nodeID
	return n
}

func (ex *Exec) baseNode(prefix string) *BNode {
	t := ex.ctx.Fresh(prefix, ArrSort)
	return ex.newNode(&BNode{kind: bBase, arr: t, name: t.name})
}

func (ex *Exec) zeroNode() *BNode {
	if ex.zeroN == nil {
		ex.zeroN = ex.newNode(&BNode{kind: bZero})
	}
	return ex.zeroN
}

func (ex *Exec) litNode(b []byte) *BNode {
	allZero := true
	for _, x := range b {
		if x != 0 {
			allZero = false
			break
		}
	}
	if allZero {
		return ex.zeroNode()
	}
	return ex.newNode(&BNode{kind: bLit, lit: b})
}

func (ex *Exec) bvNode(t *Term, nbytes int, bigEndian bool) *BNode {
	return ex.newNode(&BNode{kind: bBV, bv: t, nb: nbytes, be: bigEndian})
}

func (ex *Exec) storeNode(a *BNode, i, v *Term) *BNode {
	return ex.newNode(&BNode{kind: bStore, a: a, i: i, v: v})
}

func (ex *Exec) copyNode(dst *BNode, dOff *Term, src *BNode, sOff *Term, n *Term) *BNode {
	if isZero(n) {
		return dst
	}
	return ex.newNode(&BNode{kind: bCopy, a: dst, dOff: dOff, src: src, sOff: sOff, n: n})
}

func (ex *Exec) shiftNode(a *BNode, off *Term) *BNode {
	if isZero(off) {
		return a
	}
	if a.kind == bShift {
		return ex.newNode(&BNode{kind: bShift, a: a.a, off: ex.ctx.Add(a.off, off)})
	}
	if a.kind == bZero {
		return a
	}
	return ex.newNode(&BNode{kind: bShift, a: a, off: off})
}

func (ex *Exec) xorKSNode(dst *BNode, dOff *Term, src *BNode, sOff *Term, n *Term, sid, pos *Term) *BNode {
	if isZero(n) {
		return dst
	}
	return ex.newNode(&BNode{kind: bXorKS, a: dst, dOff: dOff, src: src, sOff: sOff, n: n, sid: sid, pos: pos})
}

func c64(c *Ctx, v uint64) *Term { return c.BVConst(v, 64) }

// sel builds the term for node[idx] (idx is BV64).
func (ex *Exec) sel(n *BNode, idx *Term) *Term {
	c := ex.ctx
	key := [2]int{n.id, idx.id}
	if t, ok := ex.selCache[key]; ok {
		return t
	}
	var r *Term
	switch n.kind {
	case bBase:
		r = c.Select(n.arr, idx)
		if n.pred != nil {
			ex.addAxiom(n.pred(c, r))
		}
	case bFn:
		r = c.UF("bytefn", BV(8), n.sid, idx)
	case bZero:
		r = c.BVConst(0, 8)
	case bLit:
		if idx.isConst {
			if idx.cv < uint64(len(n.lit)) {
				r = c.BVConst(uint64(n.lit[idx.cv]), 8)
			} else {
				r = c.BVConst(0, 8)
			}
		} else if len(n.lit) <= 300 {
			r = c.BVConst(0, 8)
			// group equal bytes to keep ite chains short
			for i := len(n.lit) - 1; i >= 0; i-- {
				if n.lit[i] == 0 {
					continue
				}
				r = c.Ite(c.Eq(idx, c64(c, uint64(i))), c.BVConst(uint64(n.lit[i]), 8), r)
			}
		} else {
			// large literal with symbolic index: axiomatised array
			if n.arr == nil {
				n.arr = c.Fresh("lit", ArrSort)
				var ax []*Term
				for i, b := range n.lit {
					ax = append(ax, c.Eq(c.Select(n.arr, c64(c, uint64(i))), c.BVConst(uint64(b), 8)))
				}
				ex.addAxiom(c.And(ax...))
			}
			r = c.Select(n.arr, idx)
		}
	case bStore:
		r = c.Ite(c.Eq(idx, n.i), n.v, ex.sel(n.a, idx))
	case bCopy:
		rel := c.Sub(idx, n.dOff)
		in := c.Ult(rel, n.n)
		if in.IsFalse() {
			r = ex.sel(n.a, idx)
		} else if in.IsTrue() {
			r = ex.sel(n.src, c.Add(rel, n.sOff))
		} else {
			r = c.Ite(in, ex.sel(n.src, c.Add(rel, n.sOff)), ex.sel(n.a, idx))
		}
	case bXorKS:
		rel := c.Sub(idx, n.dOff)
		in := c.Ult(rel, n.n)
		if in.IsFalse() {
			r = ex.sel(n.a, idx)
		} else {
			x := c.BXor(ex.sel(n.src, c.Add(rel, n.sOff)), c.UF("KS", BV(8), n.sid, c.Add(n.pos, rel)))
			if in.IsTrue() {
				r = x
			} else {
				r = c.Ite(in, x, ex.sel(n.a, idx))
			}
		}
	case bBV:
		byteAt := func(k int) *Term {
			var lo int
			if n.be {
				lo = (n.nb - 1 - k) * 8
			} else {
				lo = k * 8
			}
			return c.Extract(n.bv, lo+7, lo)
		}
		if idx.isConst {
			if idx.cv < uint64(n.nb) {
				r = byteAt(int(idx.cv))
			} else {
				r = c.BVConst(0, 8)
			}
		} else {
			r = c.BVConst(0, 8)
			for k := n.nb - 1; k >= 0; k-- {
				r = c.Ite(c.Eq(idx, c64(c, uint64(k))), byteAt(k), r)
			}
		}
	case bShift:
		r = ex.sel(n.a, c.Add(idx, n.off))
	default:
		panic(fmt.Sprintf("sel: bad node kind %d", n.kind))
	}
	ex.selCache[key] = r
	return r
}

// Region is a view (node, off, len) of bytes.
type Region struct {
	node *BNode
	off  *Term
	n    *Term
}

func (ex *Exec) regAt(r Region, i *Term) *Term {
	return ex.sel(r.node, ex.ctx.Add(r.off, i))
}

// snapshot copies a region into a fresh immutable node starting at offset 0.
func (ex *Exec) snapshot(r Region) Region {
	if isZero(r.off) {
		return Region{r.node, r.off, r.n}
	}
	return Region{ex.shiftNode(r.node, r.off), c64(ex.ctx, 0), r.n}
}
