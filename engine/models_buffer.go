package main

// Model of bytes.Buffer. The state lives in the real struct fields (buf, off) so that
// struct copies behave as in Go. The backing array is an engine object of practically
// unbounded size whose bytes beyond the written end are unconstrained ("stale").
// Bytes()/Next() return views; the view returned by Bytes() has an arbitrary capacity
// >= its length, so reads past len but within cap see unconstrained bytes and slicing
// past cap can panic – exactly the freedom the Go allocator has.

import (
	"go/types"

	"golang.org/x/tools/go/ssa"
)

const bufCap = uint64(1) << 40

func (ex *Exec) bufGet(recv Value) (Ptr, SliceV, *Term) {
	p, ok := recv.(Ptr)
	if !ok || p.IsNil() {
		ex.unsupported("bytes.Buffer method on %T/nil", recv)
	}
	sv := ex.load(p).(*StructV)
	return p, sv.fields[0].(SliceV), sv.fields[1].(*Term)
}

func (ex *Exec) bufSet(p Ptr, buf SliceV, off *Term) {
	sv := ex.load(p).(*StructV)
	fs := make([]Value, len(sv.fields))
	copy(fs, sv.fields)
	fs[0] = buf
	fs[1] = off
	ex.store(p, &StructV{fs})
}

func (ex *Exec) bufFresh(content Region) SliceV {
	c := ex.ctx
	node := ex.baseNode("stale")
	if content.node != nil && !isZero(content.n) {
		node = ex.copyNode(node, c64(c, 0), content.node, content.off, content.n)
	}
	n := c64(c, 0)
	if content.n != nil {
		n = content.n
	}
	o := ex.newObj(BytesV{node, c64(c, bufCap)}, "bytes.Buffer")
	return SliceV{base: Ptr{obj: o}, off: c64(c, 0), len: n, cap: c64(c, bufCap)}
}

func (ex *Exec) bufAppend(p Ptr, src Region) {
	c := ex.ctx
	_, buf, off := ex.bufGet(p)
	if buf.IsNil() || buf.cap.isConst && buf.cap.cv != bufCap {
		// adopt into a model-owned backing store
		var content Region
		if !buf.IsNil() {
			content = ex.sliceRegion(buf)
		}
		buf = ex.bufFresh(content)
	}
	if isZero(src.n) {
		ex.bufSet(p, buf, off)
		return
	}
	b := ex.bytesOf(buf.base)
	nn := ex.copyNode(b.node, c.Add(buf.off, buf.len), src.node, src.off, src.n)
	ex.store(buf.base, BytesV{nn, b.n})
	buf.len = c.Add(buf.len, src.n)
	ex.bufSet(p, buf, off)
}

func (ex *Exec) ioEOF() Value {
	g := ex.eng.pkgs["io"].Var("EOF")
	return ex.load(Ptr{obj: ex.globalObj(g)})
}

func (ex *Exec) ioErr(name string) Value {
	g := ex.eng.pkgs["io"].Var(name)
	return ex.load(Ptr{obj: ex.globalObj(g)})
}

func nilErr() Value { return IfaceV{} }

func registerBuffer(e *Engine) {
	B := "(*bytes.Buffer)."
	e.reg(B+"Len", func(ex *Exec, fn *ssa.Function, args []Value) (Value, *PanicV) {
		_, buf, off := ex.bufGet(args[0])
		return ex.ctx.Sub(buf.len, off), nil
	})
	e.reg(B+"Cap", func(ex *Exec, fn *ssa.Function, args []Value) (Value, *PanicV) {
		_, buf, _ := ex.bufGet(args[0])
		c := ex.ctx.Fresh("bufcap", BV(64))
		ex.addAxiom(ex.ctx.And(ex.ctx.Ule(buf.len, c), ex.ctx.Ult(c, c64(ex.ctx, bufCap))))
		return c, nil
	})
	e.reg(B+"Write", func(ex *Exec, fn *ssa.Function, args []Value) (Value, *PanicV) {
		p := args[0].(Ptr)
		s := args[1].(SliceV)
		ex.bufAppend(p, ex.sliceRegion(s))
		return TupleV{s.len, nilErr()}, nil
	})
	e.reg(B+"WriteString", func(ex *Exec, fn *ssa.Function, args []Value) (Value, *PanicV) {
		p := args[0].(Ptr)
		s := args[1].(StringV)
		ex.bufAppend(p, ex.stringRegion(s))
		return TupleV{s.len, nilErr()}, nil
	})
	e.reg(B+"WriteByte", func(ex *Exec, fn *ssa.Function, args []Value) (Value, *PanicV) {
		p := args[0].(Ptr)
		b := argTerm(ex, args[1])
		ex.bufAppend(p, Region{ex.bvNode(b, 1, true), c64(ex.ctx, 0), c64(ex.ctx, 1)})
		return nilErr(), nil
	})
	e.reg(B+"Bytes", func(ex *Exec, fn *ssa.Function, args []Value) (Value, *PanicV) {
		c := ex.ctx
		_, buf, off := ex.bufGet(args[0])
		if buf.IsNil() {
			return buf, nil
		}
		n := c.Sub(buf.len, off)
		var capT *Term
		if ex.h != nil && ex.h.ExactCap {
			capT = n
		} else if buf.cap.isConst && buf.cap.cv == bufCap {
			capT = c.Fresh("viewcap", BV(64))
			ex.recordDraw(Draw{Name: "buffer_view_cap", Kind: "uint", Term: capT, Width: 64})
			ex.addAxiom(c.And(c.Ule(n, capT), c.Ult(capT, c64(c, 1<<32))))
		} else {
			capT = c.Sub(buf.cap, off)
		}
		return SliceV{base: buf.base, off: c.Add(buf.off, off), len: n, cap: capT}, nil
	})
	e.reg(B+"String", func(ex *Exec, fn *ssa.Function, args []Value) (Value, *PanicV) {
		c := ex.ctx
		p := args[0].(Ptr)
		if p.IsNil() {
			return ex.mkString("<nil>"), nil
		}
		_, buf, off := ex.bufGet(args[0])
		if buf.IsNil() {
			return ex.mkString(""), nil
		}
		r := ex.sliceRegion(buf)
		return StringV{ex.shiftNode(r.node, c.Add(r.off, off)), c.Sub(buf.len, off)}, nil
	})
	e.reg(B+"Reset", func(ex *Exec, fn *ssa.Function, args []Value) (Value, *PanicV) {
		p, buf, _ := ex.bufGet(args[0])
		buf.len = c64(ex.ctx, 0)
		ex.bufSet(p, buf, c64(ex.ctx, 0))
		return nil, nil
	})
	e.reg(B+"Grow", func(ex *Exec, fn *ssa.Function, args []Value) (Value, *PanicV) {
		n := argTerm(ex, args[1])
		if pan := ex.rtCheck(ex.ctx.Sle(c64(ex.ctx, 0), n), "bytes.Buffer.Grow: negative count"); pan != nil {
			return nil, pan
		}
		return nil, nil
	})
	e.reg(B+"Truncate", func(ex *Exec, fn *ssa.Function, args []Value) (Value, *PanicV) {
		c := ex.ctx
		p, buf, off := ex.bufGet(args[0])
		n := argTerm(ex, args[1])
		if pan := ex.rtCheck(c.Ule(n, c.Sub(buf.len, off)), "bytes.Buffer: truncation out of range"); pan != nil {
			return nil, pan
		}
		if ex.branch(c.Eq(n, c64(c, 0))) {
			buf.len = c64(c, 0)
			ex.bufSet(p, buf, c64(c, 0))
			return nil, nil
		}
		buf.len = c.Add(off, n)
		ex.bufSet(p, buf, off)
		return nil, nil
	})
	e.reg(B+"Read", func(ex *Exec, fn *ssa.Function, args []Value) (Value, *PanicV) {
		c := ex.ctx
		p, buf, off := ex.bufGet(args[0])
		dst := args[1].(SliceV)
		avail := c.Sub(buf.len, off)
		if ex.branch(c.Eq(avail, c64(c, 0))) {
			buf.len = c64(c, 0)
			ex.bufSet(p, buf, c64(c, 0))
			if ex.branch(c.Eq(dst.len, c64(c, 0))) {
				return TupleV{c64(c, 0), nilErr()}, nil
			}
			return TupleV{c64(c, 0), ex.ioEOF()}, nil
		}
		n := c.Ite(c.Ult(dst.len, avail), dst.len, avail)
		if !isZero(n) {
			r := ex.sliceRegion(buf)
			ex.writeBytes(dst, c64(c, 0), Region{r.node, c.Add(r.off, off), n}, n)
		}
		ex.bufSet(p, buf, c.Add(off, n))
		return TupleV{n, nilErr()}, nil
	})
	e.reg(B+"ReadByte", func(ex *Exec, fn *ssa.Function, args []Value) (Value, *PanicV) {
		c := ex.ctx
		p, buf, off := ex.bufGet(args[0])
		avail := c.Sub(buf.len, off)
		if ex.branch(c.Eq(avail, c64(c, 0))) {
			buf.len = c64(c, 0)
			ex.bufSet(p, buf, c64(c, 0))
			return TupleV{c.BVConst(0, 8), ex.ioEOF()}, nil
		}
		r := ex.sliceRegion(buf)
		b := ex.sel(r.node, c.Add(r.off, off))
		ex.bufSet(p, buf, c.Add(off, c64(c, 1)))
		return TupleV{b, nilErr()}, nil
	})
	e.reg(B+"Next", func(ex *Exec, fn *ssa.Function, args []Value) (Value, *PanicV) {
		c := ex.ctx
		p, buf, off := ex.bufGet(args[0])
		n := argTerm(ex, args[1])
		avail := c.Sub(buf.len, off)
		// n > m => n = m   (signed compare in Go; n negative would panic on slicing)
		if pan := ex.rtCheck(c.Sle(c64(c, 0), n), "slice bounds out of range (Buffer.Next with negative n)"); pan != nil {
			return nil, pan
		}
		n = c.Ite(c.Ult(avail, n), avail, n)
		if buf.IsNil() {
			return buf, nil
		}
		view := SliceV{base: buf.base, off: c.Add(buf.off, off), len: n, cap: c.Sub(buf.cap, off)}
		ex.bufSet(p, buf, c.Add(off, n))
		return view, nil
	})
	e.reg("bytes.NewBuffer", func(ex *Exec, fn *ssa.Function, args []Value) (Value, *PanicV) {
		s := args[0].(SliceV)
		bt := ex.eng.pkgs["bytes"].Type("Buffer").Type()
		sv := ex.zeroValue(bt).(*StructV)
		o := ex.newObj(sv, "bytes.Buffer")
		o.typ = bt
		p := Ptr{obj: o}
		var buf SliceV
		if s.IsNil() {
			buf = ex.bufFresh(Region{})
		} else {
			buf = ex.bufFresh(ex.sliceRegion(s))
		}
		ex.bufSet(p, buf, c64(ex.ctx, 0))
		return p, nil
	})
	e.reg("bytes.NewBufferString", func(ex *Exec, fn *ssa.Function, args []Value) (Value, *PanicV) {
		s := args[0].(StringV)
		bt := ex.eng.pkgs["bytes"].Type("Buffer").Type()
		sv := ex.zeroValue(bt).(*StructV)
		o := ex.newObj(sv, "bytes.Buffer")
		p := Ptr{obj: o}
		ex.bufSet(p, ex.bufFresh(ex.stringRegion(s)), c64(ex.ctx, 0))
		return p, nil
	})
	_ = types.Typ
}
