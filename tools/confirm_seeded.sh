#!/bin/bash
# usage: confirm_seeded.sh <dir-with-patch.diff/meta.json/demo> ...
# Confirms in a scratch worktree of /repo HEAD: suite passes with patch, demo fails with patch, demo passes without.
export GOFLAGS=-mod=mod GOPROXY=off GOSUMDB=off GOTOOLCHAIN=local
WT=$(mktemp -d /tmp/confirmwt.XXXX)
git -C /repo worktree add -q --detach "$WT" HEAD || exit 2
trap 'git -C /repo worktree remove --force "$WT"; rm -rf "$WT"' EXIT
for d in "$@"; do
  id=$(basename "$d")
  [ -f "$d/patch.diff" ] || { echo "$id: no patch"; continue; }
  demo=$(python3 -c "import json;print(json.load(open('$d/meta.json'))['demo_path'])")
  dcmd=$(python3 -c "import json;print(json.load(open('$d/meta.json'))['demo_cmd'])")
  demofile=$(ls "$d"/zz_demo_*_test.go 2>/dev/null | head -1)
  cd "$WT" && git checkout -q -- . && git clean -fdq
  if ! git apply --check "$d/patch.diff" 2>/dev/null; then
     if ! git apply --3way "$d/patch.diff" 2>/dev/null; then echo "$id: PATCH-DOES-NOT-APPLY"; git checkout -q -- .; continue; fi
     git reset -q
  else
     git apply "$d/patch.diff"
  fi
  suite=$(go build ./... 2>&1 && go test -vet=off -count=1 ./... 2>&1 | grep -c -E '^(FAIL|---)')
  case "$demo" in */) demo="$demo$(basename $demofile)";; esac
  [ -d "$WT/$demo" ] && demo="$demo/$(basename $demofile)"
  cp "$demofile" "$WT/$demo"
  with=$(cd "$WT" && timeout 300 bash -c "$dcmd" 2>&1 | tail -3 | grep -c -E '^(FAIL|--- FAIL)|FAIL')
  git checkout -q -- . ; 
  without=$(cd "$WT" && timeout 300 bash -c "$dcmd" 2>&1 | tail -3 | grep -c -E '^ok')
  rm -f "$WT/$demo"
  echo "$id: suite_fail_lines=$suite demo_fails_with_patch=$([ $with -gt 0 ] && echo yes || echo NO) demo_passes_without=$([ $without -gt 0 ] && echo yes || echo NO)"
done
