//go:build verif

package main

import (
	"strings"
	"os"
	"syscall"

	"gitlab.com/yawning/obfs4.git/internal/verifrt"
)

// VerifC19Wait: lemmas Y3/Y4 – termMonitor.wait against every history of handler
// start/finish events and signals (the environment acts at each select), including
// the history with no event at all.
func VerifC19Wait() {
	m := &termMonitor{sigChan: make(chan os.Signal), handlerChan: make(chan int)}
	termOnNoHandlers := verifrt.Bool("termOnNoHandlers")
	// handlers already active when wait is entered (counted by an earlier wait(false))
	active := verifrt.IntRange("active_at_entry", 0, 2)
	m.numHandlers = active
	started, finished := 0, 0
	maxEvents := verifrt.Param("max_events")
	events := 0
	signalled := false
	verifrt.Env(func() {
		if events >= maxEvents || signalled {
			return
		}
		switch verifrt.IntRange("event", 0, 3) {
		case 1:
			events++
			started++
			m.handlerChan <- 1
		case 2:
			if active+started-finished > 0 {
				events++
				finished++
				m.handlerChan <- -1
			}
		case 3:
			events++
			signalled = true
			m.sigChan <- syscall.SIGINT
		}
	})
	verifrt.OnBlocked(func() {
		// wait() is blocked and the environment offers nothing more
		verifrt.Reach("blocked")
		verifrt.Assert(m.numHandlers == active+started-finished, "numHandlers == starts - finishes")
		verifrt.Assert(!(termOnNoHandlers && m.numHandlers == 0), "wait(true) never blocks while no handler is active")
	})
	var sig os.Signal
	verifrt.Spawn(func() { sig = m.wait(termOnNoHandlers) })
	verifrt.Reach("returned")
	verifrt.Assert(m.numHandlers == active+started-finished, "numHandlers == starts - finishes (on return)")
	if signalled {
		verifrt.Assert(sig == syscall.SIGINT || (termOnNoHandlers && sig == syscall.SIGTERM), "returns the delivered signal")
	} else {
		verifrt.Assert(termOnNoHandlers && m.numHandlers == 0 && sig == syscall.SIGTERM, "without a signal wait only returns when asked to and no handler is active")
	}
	verifrt.Reach("end")
}

// VerifC19CopyLoop: lemmas Y1/Y2 – relay of two scripted connections with arbitrary
// data, chunking, EOF or fault on either side.
func VerifC19CopyLoop() {
	maxIn := verifrt.Param("max_in")
	la := verifrt.IntRange("lenA", 0, maxIn)
	lb := verifrt.IntRange("lenB", 0, maxIn)
	a := verifrt.NewConn("a", verifrt.Bytes("inA", la))
	b := verifrt.NewConn("b", verifrt.Bytes("inB", lb))
	a.EOFAtEnd = verifrt.Bool("a_eof") // false: the side stays idle (its Read blocks) once its data is consumed
	b.EOFAtEnd = verifrt.Bool("b_eof")
	a.MaxChunks = 3
	b.MaxChunks = 3
	a.FailRead = verifrt.IntRange("a_fail_read", -1, 2)
	b.FailRead = verifrt.IntRange("b_fail_read", -1, 2)
	a.FailWrite = verifrt.IntRange("a_fail_write", -1, 1)
	b.FailWrite = verifrt.IntRange("b_fail_write", -1, 1)

	verifrt.OnBlocked(func() {
		// a copier is blocked reading an idle connection: legitimate only while neither side has ended
		verifrt.Reach("idle")
		verifrt.Assert(strings.HasPrefix(verifrt.BlockedReason(), "read on"), "a copier only ever waits for data from its source (never on the error channel or the wait group)")
		verifrt.Assert(!a.Closed && !b.Closed, "once either side has ended both connections are closed, so no copier stays blocked (the relay returns)")
	})
	verifrt.Spawn(func() { _ = copyLoop(a, b) })
	verifrt.Reach("returned")
	verifrt.Assert(a.Closed && b.Closed, "both connections are closed when the relay returns")
	// forwarded bytes are an in-order unaltered prefix of what the source produced
	verifrt.Assert(len(b.Out) <= a.Rpos, "a->b: nothing forwarded that was not read")
	verifrt.Assert(verifrt.EqualSk(b.Out, a.In[:len(b.Out)]), "a->b: forwarded bytes are a prefix of the source bytes")
	verifrt.Assert(len(a.Out) <= b.Rpos, "b->a: nothing forwarded that was not read")
	verifrt.Assert(verifrt.EqualSk(a.Out, b.In[:len(a.Out)]), "b->a: forwarded bytes are a prefix of the source bytes")
	// a side that ended (EOF) while the other was healthy had all earlier bytes forwarded first
	if a.FailRead < 0 && b.FailWrite < 0 && a.Rpos == la && a.NReads > 0 && !verifrt.Bool("skip") {
		if len(b.Out) == la {
			verifrt.Reach("a fully forwarded")
		}
	}
	verifrt.Reach("end")
}
