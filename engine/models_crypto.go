package main

// Ideal-crypto models: every primitive is an uninterpreted function of its input bytes.
// Functionality (equal inputs => equal outputs) is enforced by Skolemised congruence
// clauses; collision freeness ("ideal") only by instances at harness supplied witnesses.

import (
	"fmt"
	"os"
	"go/types"

	"golang.org/x/tools/go/ssa"
)

func (ex *Exec) concatRegions(parts []Region) Region {
	c := ex.ctx
	if len(parts) == 1 {
		return parts[0]
	}
	var node *BNode = ex.zeroNode()
	total := c64(c, 0)
	for _, p := range parts {
		if isZero(p.n) {
			continue
		}
		node = ex.copyNode(node, total, p.node, p.off, p.n)
		total = c.Add(total, p.n)
	}
	return Region{node, c64(c, 0), total}
}

func sameRegion(a, b Region) bool {
	return a.node == b.node && a.off == b.off && a.n == b.n
}

// synDistinct: the regions certainly differ (concrete different lengths, or equal concrete
// length with two different constant bytes at some index).
func (ex *Exec) synDistinct(a, b Region) bool {
	if !a.n.isConst || !b.n.isConst {
		return false
	}
	if a.n.cv != b.n.cv {
		return true
	}
	if a.n.cv > 20000 {
		return false
	}
	c := ex.ctx
	for i := uint64(0); i < a.n.cv; i++ {
		x, y := ex.regAt(a, c64(c, i)), ex.regAt(b, c64(c, i))
		if x != y && x.isConst && y.isConst {
			return true
		}
	}
	return false
}

// synEqual: both regions have the same concrete length and byte-wise identical terms.
func (ex *Exec) synEqual(a, b Region) bool {
	if sameRegion(a, b) {
		return true
	}
	if !a.n.isConst || !b.n.isConst || a.n.cv != b.n.cv || a.n.cv > 20000 {
		return false
	}
	c := ex.ctx
	for i := uint64(0); i < a.n.cv; i++ {
		it := c64(c, i)
		if ex.regAt(a, it) != ex.regAt(b, it) {
			return false
		}
	}
	return true
}

// regionDiff returns a term that is true only if the regions differ (Skolemised):
// len differs, or a fresh index d < len has different bytes.
func (ex *Exec) regionDiff(a, b Region) *Term {
	c := ex.ctx
	if ex.synEqual(a, b) {
		return c.Bool(false)
	}
	lenNe := c.Not(c.Eq(a.n, b.n))
	if lenNe.IsTrue() {
		return lenNe
	}
	// equal concrete lengths: the regions differ iff one of the (syntactically different)
	// byte pairs differs – no Skolem index, no symbolic selects
	if a.n.isConst && b.n.isConst && a.n.cv == b.n.cv && a.n.cv <= 20000 {
		var ds []*Term
		for i := uint64(0); i < a.n.cv; i++ {
			x, y := ex.regAt(a, c64(c, i)), ex.regAt(b, c64(c, i))
			if x != y {
				ds = append(ds, c.Not(c.Eq(x, y)))
			}
		}
		return c.Or(ds...)
	}
	// small constant length: expand exactly (no Skolem needed)
	if a.n.isConst && a.n.cv <= 8 {
		var ds []*Term
		for i := uint64(0); i < a.n.cv; i++ {
			ds = append(ds, c.Not(c.Eq(ex.regAt(a, c64(c, i)), ex.regAt(b, c64(c, i)))))
		}
		return c.Or(append(ds, lenNe)...)
	}
	d := c.Fresh("cd", BV(64))
	return c.Or(lenNe, c.And(c.Ult(d, a.n), c.Not(c.Eq(ex.regAt(a, d), ex.regAt(b, d)))))
}

// applyHash applies uninterpreted function fn to the concatenation of parts.
func (ex *Exec) applyHash(fn string, outBits int, ideal bool, parts ...Region) *Term {
	c := ex.ctx
	for _, prev := range ex.hashApps[fn] {
		if len(prev.parts) == len(parts) {
			same := true
			for k := range parts {
				if !ex.synEqual(prev.parts[k], parts[k]) {
					same = false
					break
				}
			}
			if same {
				return prev.out
			}
		}
	}
	out := c.Fresh("h_"+fn, BV(outBits))
	if os.Getenv("VERIF_HASHDBG") != "" {
		fmt.Printf("HASH %s new app %s parts=%d\n", fn, out.name, len(parts))
		for k, p := range parts {
			fmt.Printf("   part %d len=%s off=%s\n", k, c.Inline(p.n), c.Inline(p.off))
		}
		for _, prev := range ex.hashApps[fn] {
			for k := range parts {
				if k < len(prev.parts) && !ex.synEqual(prev.parts[k], parts[k]) {
					a, b := prev.parts[k], parts[k]
					msg := "len differs"
					if a.n.isConst && b.n.isConst && a.n.cv == b.n.cv {
						for i := uint64(0); i < a.n.cv; i++ {
							x, y := ex.regAt(a, c64(c, i)), ex.regAt(b, c64(c, i))
							if x != y {
								sx, sy := c.Inline(x), c.Inline(y)
								if len(sx) > 150 {
									sx = sx[:150]
								}
								if len(sy) > 150 {
									sy = sy[:150]
								}
								msg = fmt.Sprintf("byte %d: %s  VS  %s", i, sx, sy)
								break
							}
						}
					}
					fmt.Printf("   vs %s part %d: %s\n", prev.out.name, k, msg)
				}
			}
		}
	}
	app := &hashApp{parts: parts, out: out, ideal: ideal}
	for _, prev := range ex.hashApps[fn] {
		if len(prev.parts) != len(parts) {
			// different arity never happens for one fn name; be conservative
			continue
		}
		diffs := make([]*Term, 0, len(parts)+1)
		for k := range parts {
			diffs = append(diffs, ex.regionDiff(prev.parts[k], parts[k]))
		}
		eqOut := c.Eq(prev.out, out)
		ex.addAxiom(c.Or(append(diffs, eqOut)...))
		if ideal {
			// inputs that provably differ (different lengths, or two different constant bytes
			// at some index) have different outputs
			distinct := false
			for k := range parts {
				if ex.synDistinct(prev.parts[k], parts[k]) {
					distinct = true
				}
			}
			if distinct {
				if outBits > 128 {
					// truncated MACs/hashes (first 16 bytes) are ideal as well
					ex.addAxiom(c.Not(c.Eq(c.Extract(prev.out, outBits-1, outBits-128), c.Extract(out, outBits-1, outBits-128))))
				} else {
					ex.addAxiom(c.Not(eqOut))
				}
				continue
			}
			// collision freeness instances at the registered witnesses
			for k := range parts {
				a, b := prev.parts[k], parts[k]
				if sameRegion(a, b) {
					continue
				}
				inst := []*Term{c.Eq(a.n, b.n)}
				if a.n.isConst && b.n.isConst && a.n.cv == b.n.cv && a.n.cv <= 64 {
					for i := uint64(0); i < a.n.cv; i++ {
						inst = append(inst, c.Eq(ex.regAt(a, c64(c, i)), ex.regAt(b, c64(c, i))))
					}
				} else {
					for _, w := range ex.wit {
						inst = append(inst, c.Or(c.Ule(a.n, w), c.Eq(ex.regAt(a, w), ex.regAt(b, w))))
					}
				}
				eqI := eqOut
				if outBits > 128 {
					// also the 128-bit truncation (HMAC-SHA256-128) is collision free
					eqI = c.Eq(c.Extract(prev.out, outBits-1, outBits-128), c.Extract(out, outBits-1, outBits-128))
				}
				ex.addAxiom(c.Implies(eqI, c.And(inst...)))
			}
		}
	}
	ex.hashApps[fn] = append(ex.hashApps[fn], app)
	return out
}

func (ex *Exec) ideal() bool {
	_, ok := ex.st["ideal"]
	return ok
}

// ---------- hash.Hash objects ----------

func (ex *Exec) newHashObj(fn string, outBytes int, key *Region, is64 bool) Value {
	ex.objID++
	mo := &ModelObj{id: ex.objID, kind: "hash", state: map[string]Value{}, terms: map[string]*Term{}, regs: map[string]Region{}}
	mo.state["fn"] = fn
	mo.terms["size"] = c64(ex.ctx, uint64(outBytes))
	if key != nil {
		mo.regs["key"] = *key
	}
	name := "hash"
	if is64 {
		name = "hash64"
	}
	return IfaceV{typ: &modelType{name}, val: mo}
}

func (ex *Exec) hashOut(mo *ModelObj) *Term {
	fn := mo.state["fn"].(string)
	size := int(mo.terms["size"].cv)
	msg := ex.concatRegions(mo.parts)
	if len(mo.parts) == 0 {
		msg = Region{ex.zeroNode(), c64(ex.ctx, 0), c64(ex.ctx, 0)}
	}
	if k, ok := mo.regs["key"]; ok {
		return ex.applyHash(fn, size*8, ex.ideal(), k, msg)
	}
	return ex.applyHash(fn, size*8, ex.ideal(), msg)
}

func (ex *Exec) hashInvoke(mo *ModelObj, method string, args []Value) (Value, *PanicV) {
	c := ex.ctx
	switch method {
	case "Write":
		s := args[0].(SliceV)
		r := ex.sliceRegion(s)
		if !isZero(r.n) {
			mo.parts = append(append([]Region{}, mo.parts...), r)
			// keep it flat
			if len(mo.parts) > 1 {
				mo.parts = []Region{ex.concatRegions(mo.parts)}
			}
		}
		return TupleV{s.len, nilErr()}, nil
	case "Sum":
		s := args[0].(SliceV)
		out := ex.hashOut(mo)
		size := int(mo.terms["size"].cv)
		o := ex.newByteSlice(ex.bvNode(out, size, true), c64(c, uint64(size)), c64(c, uint64(size)))
		return ex.appendOp(s, o, nil, nil)
	case "Sum64":
		return ex.hashOut(mo), nil
	case "Reset":
		mo.parts = nil
		return nil, nil
	case "Size":
		return mo.terms["size"], nil
	case "BlockSize":
		return c64(c, 64), nil
	}
	ex.unsupported("hash method %s", method)
	return nil, nil
}

// ---------- cipher.Stream objects ----------

func (ex *Exec) newStream(fn string, key, iv Region) Value {
	ex.objID++
	sid := ex.applyHash(fn, 64, true, key, iv)
	mo := &ModelObj{id: ex.objID, kind: "stream", terms: map[string]*Term{"sid": sid, "pos": c64(ex.ctx, 0)}}
	return IfaceV{typ: &modelType{"stream"}, val: mo}
}

func (ex *Exec) streamInvoke(mo *ModelObj, method string, args []Value) (Value, *PanicV) {
	c := ex.ctx
	switch method {
	case "XORKeyStream":
		dst, src := args[0].(SliceV), args[1].(SliceV)
		if pan := ex.rtCheck(c.Ule(src.len, dst.len), "crypto/cipher: output smaller than input"); pan != nil {
			return nil, pan
		}
		if isZero(src.len) {
			return nil, nil
		}
		sr := ex.sliceRegion(src)
		db := ex.bytesOf(dst.base)
		nn := ex.xorKSNode(db.node, dst.off, sr.node, sr.off, src.len, mo.terms["sid"], mo.terms["pos"])
		ex.store(dst.base, BytesV{nn, db.n})
		mo.terms["pos"] = c.Add(mo.terms["pos"], src.len)
		return nil, nil
	}
	ex.unsupported("stream method %s", method)
	return nil, nil
}

// ---------- io.Reader model objects (hkdf) ----------

func (ex *Exec) readerInvoke(mo *ModelObj, method string, args []Value) (Value, *PanicV) {
	c := ex.ctx
	if method != "Read" {
		ex.unsupported("reader method %s", method)
	}
	dst := args[0].(SliceV)
	if isZero(dst.len) {
		return TupleV{c64(c, 0), nilErr()}, nil
	}
	src := ex.newNode(&BNode{kind: bFn, sid: mo.terms["sid"]})
	ex.writeBytes(dst, c64(c, 0), Region{src, mo.terms["pos"], dst.len}, dst.len)
	mo.terms["pos"] = c.Add(mo.terms["pos"], dst.len)
	return TupleV{dst.len, nilErr()}, nil
}

func (ex *Exec) hashNameOf(v Value) string {
	f, ok := v.(FuncV)
	if !ok || f.fn == nil {
		ex.unsupported("hash constructor is not a plain function")
	}
	switch f.fn.String() {
	case "crypto/sha256.New":
		return "sha256"
	case "crypto/sha512.New":
		return "sha512"
	case "crypto/sha1.New":
		return "sha1"
	}
	ex.unsupported("unknown hash constructor %s", f.fn)
	return ""
}

func hashSize(name string) int {
	switch name {
	case "sha256":
		return 32
	case "sha512":
		return 64
	case "sha1":
		return 20
	}
	return 32
}

func (ex *Exec) arrPtrRegion(v Value) Region {
	p := v.(Ptr)
	b := ex.bytesOf(p)
	return Region{b.node, c64(ex.ctx, 0), b.n}
}

func registerCrypto(e *Engine) {
	e.reg("crypto/sha256.New", func(ex *Exec, fn *ssa.Function, args []Value) (Value, *PanicV) {
		return ex.newHashObj("sha256", 32, nil, false), nil
	})
	e.reg("crypto/sha512.New", func(ex *Exec, fn *ssa.Function, args []Value) (Value, *PanicV) {
		return ex.newHashObj("sha512", 64, nil, false), nil
	})
	e.reg("crypto/sha256.Sum256", func(ex *Exec, fn *ssa.Function, args []Value) (Value, *PanicV) {
		r := ex.sliceRegion(args[0].(SliceV))
		out := ex.applyHash("sha256", 256, ex.ideal(), r)
		return BytesV{ex.bvNode(out, 32, true), c64(ex.ctx, 32)}, nil
	})
	e.reg("crypto/sha512.Sum512", func(ex *Exec, fn *ssa.Function, args []Value) (Value, *PanicV) {
		r := ex.sliceRegion(args[0].(SliceV))
		out := ex.applyHash("sha512", 512, ex.ideal(), r)
		return BytesV{ex.bvNode(out, 64, true), c64(ex.ctx, 64)}, nil
	})
	e.reg("crypto/hmac.New", func(ex *Exec, fn *ssa.Function, args []Value) (Value, *PanicV) {
		inner := ex.hashNameOf(args[0])
		key := ex.sliceRegion(args[1].(SliceV))
		return ex.newHashObj("hmac-"+inner, hashSize(inner), &key, false), nil
	})
	e.reg("crypto/hmac.Equal", func(ex *Exec, fn *ssa.Function, args []Value) (Value, *PanicV) {
		a, b := args[0].(SliceV), args[1].(SliceV)
		return ex.regionEq(ex.sliceRegion(a), ex.sliceRegion(b)), nil
	})
	e.reg("crypto/subtle.ConstantTimeCompare", func(ex *Exec, fn *ssa.Function, args []Value) (Value, *PanicV) {
		a, b := args[0].(SliceV), args[1].(SliceV)
		eq := ex.regionEq(ex.sliceRegion(a), ex.sliceRegion(b))
		return ex.ctx.Ite(eq, c64(ex.ctx, 1), c64(ex.ctx, 0)), nil
	})
	e.reg("github.com/dchest/siphash.New", func(ex *Exec, fn *ssa.Function, args []Value) (Value, *PanicV) {
		key := ex.sliceRegion(args[0].(SliceV))
		if pan := ex.rtCheck(ex.ctx.Eq(key.n, c64(ex.ctx, 16)), "siphash: bad key length"); pan != nil {
			return nil, pan
		}
		return ex.newHashObj("siphash", 8, &key, true), nil
	})
	e.reg("github.com/dchest/siphash.Hash", func(ex *Exec, fn *ssa.Function, args []Value) (Value, *PanicV) {
		c := ex.ctx
		k0, k1 := argTerm(ex, args[0]), argTerm(ex, args[1])
		// the byte key is k0 (little endian) || k1 (little endian), as siphash.New reads it
		key := Region{ex.bvNode(c.Concat(k1, k0), 16, false), c64(c, 0), c64(c, 16)}
		msg := ex.sliceRegion(args[2].(SliceV))
		return ex.applyHash("siphash", 64, ex.ideal(), key, msg), nil
	})
	// HKDF
	hk := func(name string) modelFn {
		return func(ex *Exec, fn *ssa.Function, args []Value) (Value, *PanicV) {
			c := ex.ctx
			inner := ex.hashNameOf(args[0])
			var parts []Region
			for _, a := range args[1:] {
				r := ex.sliceRegion(a.(SliceV))
				// length-prefix each part to keep the encoding injective
				parts = append(parts, Region{ex.bvNode(r.n, 8, true), c64(c, 0), c64(c, 8)}, r)
			}
			sid := ex.applyHash(name+"-"+inner, 64, true, ex.concatRegions(parts))
			ex.objID++
			mo := &ModelObj{id: ex.objID, kind: "reader", terms: map[string]*Term{"sid": sid, "pos": c64(c, 0)}}
			return IfaceV{typ: &modelType{"reader"}, val: mo}, nil
		}
	}
	e.reg("golang.org/x/crypto/hkdf.New", hk("hkdf"))
	e.reg("golang.org/x/crypto/hkdf.Expand", hk("hkdf-expand"))
	// AES + CTR
	e.reg("crypto/aes.NewCipher", func(ex *Exec, fn *ssa.Function, args []Value) (Value, *PanicV) {
		c := ex.ctx
		key := ex.sliceRegion(args[0].(SliceV))
		okLen := c.Or(c.Eq(key.n, c64(c, 16)), c.Eq(key.n, c64(c, 24)), c.Eq(key.n, c64(c, 32)))
		if !ex.branch(okLen) {
			return TupleV{IfaceV{}, ex.errorString("crypto/aes: invalid key size")}, nil
		}
		ex.objID++
		mo := &ModelObj{id: ex.objID, kind: "block", regs: map[string]Region{"key": key}}
		return TupleV{IfaceV{typ: &modelType{"block"}, val: mo}, nilErr()}, nil
	})
	e.reg("crypto/cipher.NewCTR", func(ex *Exec, fn *ssa.Function, args []Value) (Value, *PanicV) {
		c := ex.ctx
		blk := args[0].(IfaceV)
		mo, ok := blk.val.(*ModelObj)
		if !ok {
			ex.unsupported("NewCTR on non-model block")
		}
		iv := ex.sliceRegion(args[1].(SliceV))
		if pan := ex.rtCheck(c.Eq(iv.n, c64(c, 16)), "cipher.NewCTR: IV length must equal block size"); pan != nil {
			return nil, pan
		}
		return ex.newStream("aes-ctr", mo.regs["key"], iv), nil
	})
	// secretbox
	e.reg("golang.org/x/crypto/nacl/secretbox.Seal", func(ex *Exec, fn *ssa.Function, args []Value) (Value, *PanicV) {
		c := ex.ctx
		out := args[0].(SliceV)
		msg := ex.sliceRegion(args[1].(SliceV))
		nonce := ex.arrPtrRegion(args[2])
		key := ex.arrPtrRegion(args[3])
		sid := ex.applyHash("sbks", 64, true, key, nonce)
		ct := ex.xorKSNode(ex.zeroNode(), c64(c, 0), msg.node, msg.off, msg.n, sid, c64(c, 0))
		ctR := Region{ct, c64(c, 0), msg.n}
		// the tag authenticates the ciphertext (equivalently the message) under key, nonce
		tag := ex.applyHash("sbtag", 128, true, key, nonce, msg)
		boxNode := ex.copyNode(ex.bvNode(tag, 16, true), c64(c, 16), ct, c64(c, 0), msg.n)
		total := c.Add(msg.n, c64(c, 16))
		box := ex.newByteSlice(boxNode, total, total)
		ex.sealApps = append(ex.sealApps, &sealApp{key: key, nonce: nonce, msg: msg, box: Region{boxNode, c64(c, 0), total}, tag: tag})
		_ = ctR
		return ex.appendOp(out, box, nil, nil)
	})
	e.reg("golang.org/x/crypto/nacl/secretbox.Open", func(ex *Exec, fn *ssa.Function, args []Value) (Value, *PanicV) {
		c := ex.ctx
		out := args[0].(SliceV)
		boxS := args[1].(SliceV)
		box := ex.sliceRegion(boxS)
		nonce := ex.arrPtrRegion(args[2])
		key := ex.arrPtrRegion(args[3])
		if !ex.branch(c.Ule(c64(c, 16), box.n)) {
			return TupleV{SliceV{off: c64(c, 0), len: c64(c, 0), cap: c64(c, 0)}, c.Bool(false)}, nil
		}
		mlen := c.Sub(box.n, c64(c, 16))
		sid := ex.applyHash("sbks", 64, true, key, nonce)
		pt := ex.xorKSNode(ex.zeroNode(), c64(c, 0), box.node, c.Add(box.off, c64(c, 16)), mlen, sid, c64(c, 0))
		msg := Region{pt, c64(c, 0), mlen}
		var tagBytes []*Term
		for i := 0; i < 16; i++ {
			tagBytes = append(tagBytes, ex.regAt(box, c64(c, uint64(i))))
		}
		tagRx := tagBytes[0]
		for i := 1; i < 16; i++ {
			tagRx = c.Concat(tagRx, tagBytes[i])
		}
		tag := ex.applyHash("sbtag", 128, true, key, nonce, msg)
		ok := c.Eq(tag, tagRx)
		if _, ideal := ex.st["ideal_aead"]; ideal {
			// unforgeability (Dolev-Yao): the box opens iff it is, byte for byte, a box that
			// was sealed on this path under the same key and nonce
			var alts []*Term
			for _, s := range ex.sealApps {
				if !s.box.n.isConst {
					ex.unsupported("ideal AEAD with a sealed box of symbolic length")
				}
				alts = append(alts, c.And(ex.regionEq(s.key, key), ex.regionEq(s.nonce, nonce), ex.regionEq(s.box, box)))
			}
			ok = c.Or(alts...)
		}
		if ex.branch(ok) {
			r, pan := ex.appendOp(out, ex.newByteSlice(pt, mlen, mlen), nil, nil)
			if pan != nil {
				return nil, pan
			}
			return TupleV{r, c.Bool(true)}, nil
		}
		return TupleV{SliceV{off: c64(c, 0), len: c64(c, 0), cap: c64(c, 0)}, c.Bool(false)}, nil
	})
	e.reg(rtPkg+".Ideal", func(ex *Exec, fn *ssa.Function, args []Value) (Value, *PanicV) {
		ex.st["ideal"] = true
		ex.res.Notes = append(ex.res.Notes, "Ideal(): hashes/MACs are random oracles - provably different inputs give different outputs (also truncated to 128 bits); a run of >= 8 bytes of an output never equals bytes derived from other outputs / other positions, >= 8 constant bytes, or >= 8 bytes of honest fresh randomness (csrand, crypto/rand); not applied to bytes read at symbolic positions")
		return nil, nil
	})
	e.reg(rtPkg+".IdealAEAD", func(ex *Exec, fn *ssa.Function, args []Value) (Value, *PanicV) {
		ex.st["ideal_aead"] = true
		ex.res.Notes = append(ex.res.Notes, "IdealAEAD(): secretbox.Open succeeds iff the box is byte-for-byte one sealed on this path under the same key and nonce (Dolev-Yao)")
		return nil, nil
	})
	_ = types.Typ
}
