//go:build verif

package socks5

import (
	"io"
	"net"
	"strconv"
	"time"

	"gitlab.com/yawning/obfs4.git/internal/verifrt"
)

// encodeArg is the pt-spec escaper (backslash before '\\', '=' and ';'), written in the harness.
func encodeArg(dst []byte, s []byte) []byte {
	for _, ch := range s {
		if ch == '\\' || ch == '=' || ch == ';' {
			dst = append(dst, '\\')
		}
		dst = append(dst, ch)
	}
	return dst
}

func vField(name string, min, max int) []byte {
	n := verifrt.Pick(name+"_len", min, max)
	return verifrt.Bytes(name, n)
}

// VerifC17ArgsRoundTrip: lemma K2 – parse(encode(args)) == args for every argument list
// within the bound (arbitrary byte values, including ; = \ and bytes >= 0x80).
func VerifC17ArgsRoundTrip() {
	nPairs := verifrt.Pick("pairs", 1, verifrt.Param("max_pairs"))
	var keys, vals [][]byte
	var enc []byte
	for i := 0; i < nPairs; i++ {
		k := vField("key", 1, verifrt.Param("max_key"))
		v := vField("value", 0, verifrt.Param("max_value"))
		// pt-spec: keys must be distinct for a map comparison
		for _, pk := range keys {
			verifrt.Assume(!verifrt.Equal(pk, k))
		}
		keys = append(keys, k)
		vals = append(vals, v)
		if i > 0 {
			enc = append(enc, ';')
		}
		enc = encodeArg(enc, k)
		enc = append(enc, '=')
		enc = encodeArg(enc, v)
	}
	args, err := parseClientParameters(string(enc))
	verifrt.Assert(err == nil, "a well-formed argument string parses")
	verifrt.Assert(len(args) == nPairs, "exactly the encoded keys")
	for i := range keys {
		got, ok := args.Get(string(keys[i]))
		verifrt.Assert(ok, "key present")
		verifrt.Assert(got == string(vals[i]), "value round-trips byte for byte")
	}
	verifrt.Reach("end")
}

// VerifC17ArgsArbitrary: lemma K3 (parser part) – for every byte string up to the bound
// the parser returns an error or a map whose re-encoding parses to the same map; never panics.
func VerifC17ArgsArbitrary() {
	n := verifrt.Pick("len", 0, verifrt.Param("max_len"))
	s := verifrt.Bytes("argstr", n)
	args, err := parseClientParameters(string(s))
	if err != nil {
		verifrt.Reach("rejected")
		verifrt.Assert(args == nil, "no map on error")
		return
	}
	verifrt.Reach("accepted")
	verifrt.Assert(n == 0 || len(args) > 0, "a non-empty accepted string yields at least one pair")
	// no silently altered request: the accepted map re-encodes and parses to itself
	for k, vs := range args {
		for _, v := range vs {
			enc := encodeArg(nil, []byte(k))
			enc = append(enc, '=')
			enc = encodeArg(enc, []byte(v))
			a2, err2 := parseClientParameters(string(enc))
			verifrt.Assert(err2 == nil, "re-encoding of an accepted pair parses")
			g, ok := a2.Get(k)
			verifrt.Assert(ok && g == v, "and yields the same pair")
		}
	}
	verifrt.Reach("end")
}

// stepConn is a SOCKS client that follows the exchange step by step: message i+1 becomes
// readable only after the server has written reply i.
type stepConn struct {
	msgs     [][]byte
	cur, pos int
	writes   int
	seenW    int
	out      []byte
	dl       []time.Time
	nReads   int
}

func (c *stepConn) Read(b []byte) (int, error) {
	c.nReads++
	for c.cur < len(c.msgs) && c.pos == len(c.msgs[c.cur]) {
		// current message consumed: the next one is sent only after a reply was written
		if c.writes == c.seenW {
			break
		}
		c.seenW = c.writes
		c.cur++
		c.pos = 0
	}
	if c.cur >= len(c.msgs) || c.pos == len(c.msgs[c.cur]) {
		return 0, io.EOF
	}
	n := copy(b, c.msgs[c.cur][c.pos:])
	c.pos += n
	return n, nil
}
func (c *stepConn) Write(b []byte) (int, error)        { c.writes++; c.out = append(c.out, b...); return len(b), nil }
func (c *stepConn) Close() error                       { return nil }
func (c *stepConn) LocalAddr() net.Addr                { return verifrt.Addr{S: "l"} }
func (c *stepConn) RemoteAddr() net.Addr               { return verifrt.Addr{S: "r"} }
func (c *stepConn) SetDeadline(t time.Time) error      { c.dl = append(c.dl, t); return nil }
func (c *stepConn) SetReadDeadline(t time.Time) error  { return nil }
func (c *stepConn) SetWriteDeadline(t time.Time) error { return nil }

// VerifC17Handshake: lemma K1/K5 – a well-formed step-by-step exchange yields exactly the
// target and arguments the client encoded.
func VerifC17Handshake() {
	// method negotiation
	nm := verifrt.Pick("nmethods", 1, 2)
	methods := verifrt.Bytes("methods", nm)
	hasUP := false
	hasNone := false
	for _, m := range methods {
		if m == authUsernamePassword {
			hasUP = true
		}
		if m == authNoneRequired {
			hasNone = true
		}
	}
	verifrt.Assume(hasUP || hasNone)
	msgs := [][]byte{append([]byte{version, byte(nm)}, methods...)}
	// RFC 1929 with one argument pair split between username and password
	key := vField("key", 1, 2)
	val := vField("value", 0, 2)
	for _, ch := range key {
		verifrt.Assume(ch != '\\' && ch != '=' && ch != ';')
	}
	for _, ch := range val {
		verifrt.Assume(ch != '\\' && ch != '=' && ch != ';')
	}
	argStr := append(append(append([]byte{}, key...), '='), val...)
	if hasUP {
		split := verifrt.Pick("split", 1, 4)
		verifrt.Assume(split <= len(argStr))
		uname := argStr[:split]
		passwd := argStr[split:]
		if len(passwd) == 0 {
			passwd = []byte{0}
		} else {
			// pt-spec convention: a password consisting of a single NUL byte means "no
			// password"; a client never spills exactly one NUL byte into the password field
			verifrt.Assume(!(len(passwd) == 1 && passwd[0] == 0))
		}
		auth := []byte{authRFC1929Ver, byte(len(uname))}
		auth = append(auth, uname...)
		auth = append(auth, byte(len(passwd)))
		auth = append(auth, passwd...)
		msgs = append(msgs, auth)
	}
	// CONNECT request
	port := verifrt.Uint16("port")
	var req []byte
	var wantHost string
	switch verifrt.Pick("atyp", 0, 2) {
	case 0:
		req = []byte{version, cmdConnect, rsv, atypIPv4, 192, 0, 2, 7}
		wantHost = "192.0.2.7"
	case 1:
		dom := vField("domain", 1, 3)
		req = append([]byte{version, cmdConnect, rsv, atypDomainName, byte(len(dom))}, dom...)
		wantHost = string(dom)
	default:
		req = []byte{version, cmdConnect, rsv, atypIPv6, 0x20, 0x01, 0x0d, 0xb8, 0, 0, 0, 0, 0, 0, 0, 0, 0, 0, 0, 1}
		wantHost = "[2001:db8::1]"
	}
	req = append(req, byte(port>>8), byte(port))
	msgs = append(msgs, req)

	c := &stepConn{msgs: msgs}
	r, err := Handshake(c)
	verifrt.Assert(err == nil && r != nil, "a well-formed exchange succeeds")
	verifrt.Assert(r.Target == wantHost+":"+strconv.Itoa(int(port)), "target is exactly the destination the client named")
	if hasUP {
		got, ok := r.Args.Get(string(key))
		verifrt.Assert(ok && got == string(val) && len(r.Args) == 1, "arguments are exactly the ones the client encoded")
		verifrt.Assert(c.out[1] == authUsernamePassword, "username/password is preferred")
	} else {
		verifrt.Assert(len(r.Args) == 0 && c.out[1] == authNoneRequired, "no arguments without authentication")
	}
	verifrt.Assert(len(c.dl) == 2 && !c.dl[0].IsZero() && c.dl[1].IsZero(), "deadline armed at the start and cleared at the end")
	verifrt.Reach("end")
}

// VerifC17Debug: translator validation of the address formatting path.
func VerifC17Debug() {
	s := net.IPv4(192, 0, 2, 7).String()
	verifrt.Assert(len(s) == 9, "len 9")
	verifrt.Assert(s == "192.0.2.7", "ipv4 string")
	ip := make(net.IP, net.IPv6len)
	copy(ip, []byte{0x20, 0x01, 0x0d, 0xb8, 0, 0, 0, 0, 0, 0, 0, 0, 0, 0, 0, 1})
	s6 := ip.String()
	verifrt.Assert(s6 == "2001:db8::1", "ipv6 string")
	verifrt.Reach("end")
}
