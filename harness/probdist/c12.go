//go:build verif

package probdist

import (
	"math/rand"

	"gitlab.com/yawning/obfs4.git/common/drbg"
	"gitlab.com/yawning/obfs4.git/internal/verifrt"
)

func vSeed(name string) *drbg.Seed {
	s, err := drbg.SeedFromBytes(verifrt.Bytes(name, drbg.SeedLength))
	verifrt.Assume(err == nil)
	return s
}

var boundPairs = [][2]int{{0, 1448}, {0, 100}, {21, 1448}, {5, 6}, {0, 1}, {7, 40}}

// VerifC12Values: lemmas D3/D5 – for every seed and the bound pairs the transports use
// (plus small ranges): the value table has 1..min(100, n) entries, each inside
// [0, max-min] (so every sample min+values[i] is inside [min,max]); building it draws
// nothing from the CSPRNG/clock; the same seed gives the same table.
func VerifC12Values() {
	bp := boundPairs[verifrt.Pick("bounds", 0, len(boundPairs)-1)]
	min, max := bp[0], bp[1]
	seed := vSeed("seed")
	before := verifrt.ImpureCalls()
	gen := func() *WeightedDist {
		w := &WeightedDist{minValue: min, maxValue: max}
		d, _ := drbg.NewHashDrbg(seed)
		w.genValues(rand.New(d))
		return w
	}
	w := gen()
	verifrt.Assert(verifrt.ImpureCalls() == before, "the value table is a pure function of the seed (no CSPRNG / clock)")
	n := max - min + 1
	lim := n
	if lim > maxValues {
		lim = maxValues
	}
	verifrt.Assert(len(w.values) >= 1 && len(w.values) <= lim, "1 <= #values <= min(100, max-min+1)")
	i := verifrt.IntRange("i", 0, len(w.values)-1) // Skolem index: any entry
	verifrt.Assert(w.values[i] >= 0 && w.values[i] <= max-min, "every table value is in [0, max-min], i.e. min+value is inside [min,max]")
	// determinism
	w2 := gen()
	verifrt.Assert(len(w2.values) == len(w.values), "same seed, same table size")
	verifrt.Assert(w2.values[i] == w.values[i], "same seed, same values")
	verifrt.Reach("end")
}

// VerifC12Tables: lemma D4 (structure) / D5 – weights and alias tables for a table of n <= 3
// values: pure in the seed, deterministic, alias entries index the table, prob in [0,1].
func VerifC12Tables() {
	n := verifrt.Pick("n", 1, verifrt.Param("max_n"))
	biased := verifrt.Bool("biased")
	seed := vSeed("seed")
	before := verifrt.ImpureCalls()
	stale := verifrt.Pick("stale_entries_from_previous_seed", 0, 2)
	gen := func() *WeightedDist {
		w := &WeightedDist{minValue: 0, maxValue: 100, biased: biased}
		if stale > 0 {
			// the distribution was loaded with a larger table before (Reset to a new seed)
			w.weights = make([]float64, n+stale)
			w.alias = make([]int, n+stale)
			w.prob = make([]float64, n+stale)
			for k := range w.weights {
				w.weights[k] = verifrt.Real("stale_weight")
			}
		}
		w.values = make([]int, n)
		d, _ := drbg.NewHashDrbg(seed)
		rng := rand.New(d)
		if biased {
			w.genBiasedWeights(rng)
		} else {
			w.genUniformWeights(rng)
		}
		w.genTables()
		return w
	}
	w := gen()
	stale = 0
	verifrt.Assert(verifrt.ImpureCalls() == before, "weights and tables are a pure function of the seed")
	verifrt.Assert(len(w.weights) == n && len(w.alias) == n && len(w.prob) == n, "one weight / alias / prob entry per value")
	w2 := gen() // a freshly created distribution with the same seed: no dependence on history
	for k := 0; k < n; k++ {
		verifrt.Assert(w.alias[k] >= 0 && w.alias[k] < n, "alias entries index the table")
		verifrt.Assert(w.prob[k] >= 0 && w.prob[k] <= 1, "prob entries are probabilities")
		verifrt.Assert(w2.alias[k] == w.alias[k] && w2.prob[k] == w.prob[k] && w2.weights[k] == w.weights[k], "same seed, same weights and tables")
	}
	verifrt.Reach("end")
}

// VerifC12Sample: every sample is minValue + values[idx] with idx inside the table.
func VerifC12Sample() {
	w := &WeightedDist{minValue: 21, maxValue: 1448}
	n := verifrt.Pick("n", 1, 3)
	w.values = make([]int, n)
	w.alias = make([]int, n)
	w.prob = make([]float64, n)
	for k := 0; k < n; k++ {
		w.values[k] = verifrt.IntRange("value", 0, 1427)
		w.alias[k] = verifrt.IntRange("alias", 0, n-1)
		w.prob[k] = verifrt.Real("prob")
	}
	s := w.Sample()
	in := false
	for k := 0; k < n; k++ {
		in = verifrt.Or(in, s == 21+w.values[k])
	}
	verifrt.Assert(in, "a sample is minValue + one of the table values")
	verifrt.Assert(s >= 21 && s <= 1448, "sample inside [min,max]")
	verifrt.Reach("end")
}

// VerifC12AliasExact: lemma D4 – in exact (real) arithmetic the alias tables reproduce the
// weights exactly: P(i) = (prob[i] + sum over j with alias[j]==i of (1-prob[j])) / n equals
// weights[i] / sum(weights), for every weight vector of n <= max_n entries.
func VerifC12AliasExact() {
	n := verifrt.Pick("n", 1, verifrt.Param("max_n"))
	w := &WeightedDist{}
	w.values = make([]int, n)
	w.weights = make([]float64, n)
	sum := 0.0
	for i := 0; i < n; i++ {
		w.weights[i] = verifrt.Real("weight")
		verifrt.Assume(w.weights[i] >= 0)
		sum += w.weights[i]
	}
	verifrt.Assume(sum > 0)
	w.genTables()
	for i := 0; i < n; i++ {
		verifrt.Assert(w.alias[i] >= 0 && w.alias[i] < n, "alias in range")
		verifrt.Assert(w.prob[i] >= 0 && w.prob[i] <= 1, "prob is a probability")
		total := w.prob[i]
		for j := 0; j < n; j++ {
			if j != i && w.alias[j] == i {
				total += 1 - w.prob[j]
			}
		}
		// P(i) == weights[i]/sum  <=>  total * sum == weights[i] * n
		verifrt.Assert(total*sum == w.weights[i]*float64(n), "the tables reproduce the normalised weight exactly (real arithmetic)")
	}
	verifrt.Reach("end")
}
