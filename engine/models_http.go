package main

// Minimal HTTP client model for meek_lite: NewRequest builds a Request carrying only
// Header, Body and Host; Transport.RoundTrip hands (session id header, body bytes) to the
// harness callback registered with verifrt.OnRoundTrip and returns the scripted response.

import (
	"go/types"

	"golang.org/x/tools/go/ssa"
)

func (ex *Exec) structFieldIndex(t types.Type, name string) int {
	st := t.Underlying().(*types.Struct)
	for i := 0; i < st.NumFields(); i++ {
		if st.Field(i).Name() == name {
			return i
		}
	}
	ex.unsupported("field %s not found in %v", name, t)
	return -1
}

func registerHTTP(e *Engine) {
	e.reg("net/http.NewRequest", func(ex *Exec, fn *ssa.Function, args []Value) (Value, *PanicV) {
		hp := ex.eng.pkgs["net/http"]
		rt := hp.Type("Request").Type()
		sv := ex.zeroValue(rt).(*StructV)
		fs := append([]Value{}, sv.fields...)
		fs[ex.structFieldIndex(rt, "Method")] = args[0]
		ex.objID++
		fs[ex.structFieldIndex(rt, "Header")] = MapV{&MapObj{id: ex.objID, typ: hp.Type("Header").Type().Underlying().(*types.Map)}}
		body := args[2].(IfaceV)
		fs[ex.structFieldIndex(rt, "Body")] = body // io.Reader stored as is; only the model looks at it
		o := ex.newObj(&StructV{fs}, "http.Request")
		o.typ = rt
		ex.st["req:"+itoa(o.id)] = args[1] // url string
		return TupleV{Ptr{obj: o}, nilErr()}, nil
	})
	e.reg("(net/http.Header).Set", func(ex *Exec, fn *ssa.Function, args []Value) (Value, *PanicV) {
		m := args[0].(MapV)
		c := ex.ctx
		o := ex.newObj(&ArrayV{[]Value{args[2]}}, "hdr")
		ex.mapUpdate(m.m, args[1], SliceV{base: Ptr{obj: o}, off: c64(c, 0), len: c64(c, 1), cap: c64(c, 1)})
		return nil, nil
	})
	e.reg("(*net/url.URL).String", func(ex *Exec, fn *ssa.Function, args []Value) (Value, *PanicV) {
		return ex.mkString("http://meek.invalid/"), nil
	})
	e.reg("(*net/http.Transport).RoundTrip", func(ex *Exec, fn *ssa.Function, args []Value) (Value, *PanicV) {
		c := ex.ctx
		hp := ex.eng.pkgs["net/http"]
		rt := hp.Type("Request").Type()
		req := ex.load(args[1].(Ptr)).(*StructV)
		hdr := req.fields[ex.structFieldIndex(rt, "Header")].(MapV)
		sid := ex.mkString("")
		if k := ex.mapFind(hdr.m, ex.mkString("X-Session-Id")); k >= 0 {
			sl := hdr.m.entries[k].val.(SliceV)
			sid = ex.load(sl.base).(*ArrayV).elems[0].(StringV)
		}
		// body: nil, or a *bytes.Reader (possibly wrapped)
		bodyIv := req.fields[ex.structFieldIndex(rt, "Body")].(IfaceV)
		body := ex.newByteSlice(ex.zeroNode(), c64(c, 0), c64(c, 0))
		if bodyIv.typ != nil {
			p, ok := bodyIv.val.(Ptr)
			if !ok {
				ex.unsupported("request body of type %v", bodyIv.typ)
			}
			rd := ex.load(p).(*StructV) // bytes.Reader{s []byte, i int64, prevRune int}
			s := rd.fields[0].(SliceV)
			r := ex.sliceRegion(s)
			body = ex.newByteSlice(ex.shiftNode(r.node, r.off), r.n, r.n)
		}
		cb, ok := ex.st["onroundtrip"].(Value)
		if !ok {
			ex.unsupported("RoundTrip without verifrt.OnRoundTrip")
		}
		ex.envDepth++
		res, pan := ex.callAny(cb, []Value{sid, body}, nil)
		ex.envDepth--
		if pan != nil {
			return nil, pan
		}
		tv := res.(TupleV)
		status := tv[0].(*Term)
		respBody := tv[1].(SliceV)
		failed := tv[2].(*Term)
		if ex.branch(failed) {
			return TupleV{Ptr{}, ex.errorString("verifrt: injected round trip failure")}, nil
		}
		respT := hp.Type("Response").Type()
		rs := ex.zeroValue(respT).(*StructV)
		fs := append([]Value{}, rs.fields...)
		fs[ex.structFieldIndex(respT, "StatusCode")] = status
		ex.objID++
		mo := &ModelObj{id: ex.objID, kind: "httpbody", regs: map[string]Region{"data": ex.sliceRegion(respBody)}, terms: map[string]*Term{"pos": c64(c, 0), "closed": c.Bool(false)}}
		fs[ex.structFieldIndex(respT, "Body")] = IfaceV{typ: &modelType{"httpbody"}, val: mo}
		o := ex.newObj(&StructV{fs}, "http.Response")
		return TupleV{Ptr{obj: o}, nilErr()}, nil
	})
	e.reg("io.ReadAll", func(ex *Exec, fn *ssa.Function, args []Value) (Value, *PanicV) {
		c := ex.ctx
		r := args[0].(IfaceV)
		var limit *Term
		if p, ok := r.val.(Ptr); ok && r.typ != nil && r.typ.String() == "*io.LimitedReader" {
			lr := ex.load(p).(*StructV)
			limit = lr.fields[1].(*Term)
			r = lr.fields[0].(IfaceV)
		}
		mo, ok := r.val.(*ModelObj)
		if !ok || mo.kind != "httpbody" {
			ex.unsupported("io.ReadAll on %v", r.typ)
		}
		d := mo.regs["data"]
		n := c.Sub(d.n, mo.terms["pos"])
		if limit != nil {
			n = c.Ite(c.Slt(limit, n), limit, n)
		}
		out := ex.newByteSlice(ex.shiftNode(d.node, c.Add(d.off, mo.terms["pos"])), n, n)
		mo.terms["pos"] = c.Add(mo.terms["pos"], n)
		return TupleV{out, nilErr()}, nil
	})
	e.reg(rtPkg+".OnRoundTrip", func(ex *Exec, fn *ssa.Function, args []Value) (Value, *PanicV) {
		ex.st["onroundtrip"] = args[0]
		return nil, nil
	})
}
