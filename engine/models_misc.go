package main

import (
	"go/types"
	"net"
	"strings"

	"golang.org/x/tools/go/ssa"
)

func (ex *Exec) lookupMethod(t types.Type, name string) *ssa.Function {
	ms := ex.eng.prog.MethodSets.MethodSet(t)
	for i := 0; i < ms.Len(); i++ {
		sel := ms.At(i)
		if sel.Obj().Name() == name {
			return ex.eng.prog.MethodValue(sel)
		}
	}
	return nil
}

func (ex *Exec) callMethod(iv IfaceV, name string, args ...Value) (Value, *PanicV, bool) {
	if iv.typ == nil {
		return nil, nil, false
	}
	if _, ok := iv.typ.(*modelType); ok {
		return nil, nil, false
	}
	fn := ex.lookupMethod(iv.typ, name)
	if fn == nil {
		return nil, nil, false
	}
	all := append([]Value{iv.val}, args...)
	v, pan := ex.callFunction(fn, all, nil)
	return v, pan, true
}

// errorText returns err.Error() as a StringV.
func (ex *Exec) errorText(iv IfaceV) (StringV, *PanicV) {
	if iv.typ == nil {
		return ex.mkString("<nil>"), nil
	}
	if mt, ok := iv.typ.(*modelType); ok && mt.name == "runtime.Error" {
		return iv.val.(*ModelObj).state["msg"].(StringV), nil
	}
	v, pan, ok := ex.callMethod(iv, "Error")
	if pan != nil {
		return StringV{}, pan
	}
	if !ok {
		ex.unsupported("Error() not found on %v", iv.typ)
	}
	return v.(StringV), nil
}

func registerMisc(e *Engine) {
	// ----- errors -----
	e.reg("errors.Is", func(ex *Exec, fn *ssa.Function, args []Value) (Value, *PanicV) {
		c := ex.ctx
		err := args[0].(IfaceV)
		target := args[1].(IfaceV)
		for depth := 0; depth < 16; depth++ {
			if err.typ == nil {
				return c.Bool(target.typ == nil), nil
			}
			eq := ex.valueEq(err, target)
			if ex.branch(eq) {
				return c.Bool(true), nil
			}
			if v, pan, ok := ex.callMethod(err, "Is", target); ok {
				if pan != nil {
					return nil, pan
				}
				if ex.branch(v.(*Term)) {
					return c.Bool(true), nil
				}
			}
			v, pan, ok := ex.callMethod(err, "Unwrap")
			if pan != nil {
				return nil, pan
			}
			if !ok {
				return c.Bool(false), nil
			}
			next, isErr := v.(IfaceV)
			if !isErr {
				ex.unsupported("errors.Is: Unwrap() []error")
			}
			err = next
		}
		ex.unsupported("errors.Is: chain too deep")
		return nil, nil
	})
	e.reg("errors.As", func(ex *Exec, fn *ssa.Function, args []Value) (Value, *PanicV) {
		c := ex.ctx
		err := args[0].(IfaceV)
		tgt := args[1].(IfaceV)
		if tgt.typ == nil {
			return nil, &PanicV{msg: "errors: target cannot be nil"}
		}
		pt, ok := tgt.typ.Underlying().(*types.Pointer)
		if !ok {
			return nil, &PanicV{msg: "errors: target must be a non-nil pointer"}
		}
		tt := pt.Elem()
		tp := tgt.val.(Ptr)
		for depth := 0; depth < 16; depth++ {
			if err.typ == nil {
				return c.Bool(false), nil
			}
			if it, isI := tt.Underlying().(*types.Interface); isI {
				if ex.implements(err.typ, err.val, it) {
					ex.store(tp, err)
					return c.Bool(true), nil
				}
			} else if sameType(err.typ, tt) {
				ex.store(tp, err.val)
				return c.Bool(true), nil
			}
			if v, pan, ok := ex.callMethod(err, "As", tgt); ok {
				if pan != nil {
					return nil, pan
				}
				if ex.branch(v.(*Term)) {
					return c.Bool(true), nil
				}
			}
			v, pan, ok := ex.callMethod(err, "Unwrap")
			if pan != nil {
				return nil, pan
			}
			if !ok {
				return c.Bool(false), nil
			}
			next, isErr := v.(IfaceV)
			if !isErr {
				ex.unsupported("errors.As: Unwrap() []error")
			}
			err = next
		}
		ex.unsupported("errors.As: chain too deep")
		return nil, nil
	})
	// ----- fmt -----
	e.reg("fmt.Sprintf", func(ex *Exec, fn *ssa.Function, args []Value) (Value, *PanicV) {
		s, _, pan := ex.sprintf(args[0].(StringV), args[1].(SliceV))
		return s, pan
	})
	e.reg("fmt.Errorf", func(ex *Exec, fn *ssa.Function, args []Value) (Value, *PanicV) {
		s, wrapped, pan := ex.sprintf(args[0].(StringV), args[1].(SliceV))
		if pan != nil {
			return nil, pan
		}
		if wrapped != nil {
			fp := ex.eng.pkgs["fmt"]
			t := fp.Type("wrapError")
			o := ex.newObj(&StructV{[]Value{s, *wrapped}}, "wrapError")
			return IfaceV{typ: types.NewPointer(t.Type()), val: Ptr{obj: o}}, nil
		}
		return ex.errorStringV(s), nil
	})
	e.reg("fmt.Sprint", func(ex *Exec, fn *ssa.Function, args []Value) (Value, *PanicV) {
		return ex.opaqueString("sprint"), nil
	})
	for _, n := range []string{"fmt.Printf", "fmt.Println", "fmt.Fprintf", "fmt.Print"} {
		e.reg(n, func(ex *Exec, fn *ssa.Function, args []Value) (Value, *PanicV) {
			return TupleV{c64(ex.ctx, 0), nilErr()}, nil
		})
	}
	for _, n := range []string{"log.Print", "log.Printf", "log.Println", "log.SetOutput"} {
		e.reg(n, func(ex *Exec, fn *ssa.Function, args []Value) (Value, *PanicV) { return nil, nil })
	}
	// ----- sync -----
	lock := func(ex *Exec, fn *ssa.Function, args []Value) (Value, *PanicV) {
		p := args[0].(Ptr)
		k := ex.ptrKey(p)
		if ex.held()[k] {
			ex.blocked("sync.Mutex.Lock: already held (self-deadlock)")
		}
		ex.held()[k] = true
		ex.envHook("lock")
		return nil, nil
	}
	unlock := func(ex *Exec, fn *ssa.Function, args []Value) (Value, *PanicV) {
		p := args[0].(Ptr)
		k := ex.ptrKey(p)
		if !ex.held()[k] {
			return nil, &PanicV{runtime: true, msg: "fatal error: sync: unlock of unlocked mutex", site: ex.frame.fn.String()}
		}
		delete(ex.held(), k)
		return nil, nil
	}
	e.reg("(*sync.Mutex).Lock", lock)
	e.reg("(*sync.Mutex).Unlock", unlock)
	e.reg("(*sync.RWMutex).Lock", lock)
	e.reg("(*sync.RWMutex).Unlock", unlock)
	e.reg("(*sync.RWMutex).RLock", lock)
	e.reg("(*sync.RWMutex).RUnlock", unlock)
	e.reg("(*sync.Once).Do", func(ex *Exec, fn *ssa.Function, args []Value) (Value, *PanicV) {
		p := args[0].(Ptr)
		k := "once:" + ex.ptrKey(p)
		if ex.st[k] != nil {
			return nil, nil
		}
		ex.st[k] = true
		_, pan := ex.callAny(args[1], nil, nil)
		return nil, pan
	})
	e.reg("(*sync.WaitGroup).Add", func(ex *Exec, fn *ssa.Function, args []Value) (Value, *PanicV) {
		p := args[0].(Ptr)
		k := "wg:" + ex.ptrKey(p)
		n, _ := ex.st[k].(int)
		d := argTerm(ex, args[1])
		if !d.isConst {
			ex.unsupported("symbolic WaitGroup.Add")
		}
		n += int(d.Int())
		if n < 0 {
			return nil, &PanicV{msg: "sync: negative WaitGroup counter"}
		}
		ex.st[k] = n
		return nil, nil
	})
	e.reg("(*sync.WaitGroup).Done", func(ex *Exec, fn *ssa.Function, args []Value) (Value, *PanicV) {
		p := args[0].(Ptr)
		k := "wg:" + ex.ptrKey(p)
		n, _ := ex.st[k].(int)
		n--
		if n < 0 {
			return nil, &PanicV{msg: "sync: negative WaitGroup counter"}
		}
		ex.st[k] = n
		return nil, nil
	})
	e.reg("(*sync.WaitGroup).Wait", func(ex *Exec, fn *ssa.Function, args []Value) (Value, *PanicV) {
		p := args[0].(Ptr)
		k := "wg:" + ex.ptrKey(p)
		if ex.coop() {
			if pan := ex.coRun(); pan != nil {
				return nil, pan
			}
		}
		// run the queued goroutines (sequentialised, in a nondeterministically chosen order)
		for {
			q := ex.goQueue()
			if len(q) == 0 {
				break
			}
			k := ex.chooseN(len(q))
			t := q[k]
			nq := append(append([]goTask{}, q[:k]...), q[k+1:]...)
			ex.st["goq"] = nq
			ex.st["cur_goroutine"] = t.id
			_, pan := ex.callAny(t.fn, t.args, nil)
			ex.st["cur_goroutine"] = 0
			if pan != nil {
				return nil, pan
			}
		}
		n, _ := ex.st[k].(int)
		if n != 0 {
			ex.blocked("WaitGroup.Wait with non-zero counter")
		}
		return nil, nil
	})
	// io.Copy(io.Discard, r): read r until it fails; EOF is not an error
	e.reg("(io.discard).ReadFrom", func(ex *Exec, fn *ssa.Function, args []Value) (Value, *PanicV) {
		c := ex.ctx
		r := args[1].(IfaceV)
		buf := ex.newByteSlice(ex.baseNode("discard"), c64(c, 8192), c64(c, 8192))
		total := c64(c, 0)
		for i := 0; i < 64; i++ {
			v, pan, ok := ex.callMethod(r, "Read", buf)
			if pan != nil {
				return nil, pan
			}
			if !ok {
				ex.unsupported("discard.ReadFrom: reader without Read")
			}
			tv := v.(TupleV)
			total = c.Add(total, tv[0].(*Term))
			err := tv[1].(IfaceV)
			if err.typ != nil {
				if ex.branch(ex.valueEq(err, ex.ioEOF())) {
					return TupleV{total, nilErr()}, nil
				}
				return TupleV{total, err}, nil
			}
		}
		panic(pathEnd{kind: "unwind", msg: "discard.ReadFrom: more than 64 reads"})
	})
	// net.IP.String: exact for concrete addresses (computed by the real function), an
	// injective uninterpreted rendering for symbolic ones
	e.reg("(net.IP).String", func(ex *Exec, fn *ssa.Function, args []Value) (Value, *PanicV) {
		c := ex.ctx
		sl := args[0].(SliceV)
		if sl.IsNil() || isZero(sl.len) {
			return ex.mkString("<nil>"), nil
		}
		r := ex.sliceRegion(sl)
		if !r.n.isConst || r.n.cv > 16 {
			ex.unsupported("net.IP.String on symbolic length")
		}
		n := int(r.n.cv)
		raw := make([]byte, n)
		conc := true
		for i := 0; i < n; i++ {
			t := ex.regAt(r, c64(c, uint64(i)))
			if !t.isConst {
				conc = false
				break
			}
			raw[i] = byte(t.cv)
		}
		if conc {
			return ex.mkString(net.IP(raw).String()), nil
		}
		bv := ex.regionBV(r, n)
		ln := c.UF("ipstrlen", BV(64), c.ZExt(bv, 128))
		ex.addAxiom(c.And(c.Ule(c64(c, 2), ln), c.Ule(ln, c64(c, 45))))
		node := ex.newNode(&BNode{kind: bFn, sid: c.UF("ipstrid", BV(64), c.ZExt(bv, 128))})
		return StringV{node, ln}, nil
	})
	e.reg("flag.Bool", func(ex *Exec, fn *ssa.Function, args []Value) (Value, *PanicV) {
		o := ex.newObj(args[1], "flag.Bool")
		return Ptr{obj: o}, nil
	})
	e.reg("flag.String", func(ex *Exec, fn *ssa.Function, args []Value) (Value, *PanicV) {
		o := ex.newObj(args[1], "flag.String")
		return Ptr{obj: o}, nil
	})
	e.reg("runtime.Gosched", func(ex *Exec, fn *ssa.Function, args []Value) (Value, *PanicV) {
		ex.envHook("gosched")
		return nil, nil
	})
	e.reg("time.Sleep", func(ex *Exec, fn *ssa.Function, args []Value) (Value, *PanicV) {
		ex.envHook("sleep")
		return nil, nil
	})
	// ----- randomness -----
	csr := repoMod + "/common/csrand"
	e.reg(rtPkg+".OnRandBytes", func(ex *Exec, fn *ssa.Function, args []Value) (Value, *PanicV) {
		ex.st["onrandbytes"] = args[0]
		return nil, nil
	})
	e.reg(csr+".Bytes", func(ex *Exec, fn *ssa.Function, args []Value) (Value, *PanicV) {
		ex.noteImpure("csrand.Bytes")
		s := args[0].(SliceV)
		if isZero(s.len) {
			return nilErr(), nil
		}
		if cb, ok := ex.st["onrandbytes"].(Value); ok && cb != nil {
			r, pan := ex.callAny(cb, []Value{s.len}, nil)
			if pan != nil {
				return nil, pan
			}
			src := r.(SliceV)
			ex.tape = append(ex.tape, Draw{Name: "rand_bytes", Kind: "bytes", Node: ex.sliceRegion(src).node, Len: s.len})
			ex.writeBytes(s, c64(ex.ctx, 0), ex.sliceRegion(src), s.len)
			return nilErr(), nil
		}
		node := ex.baseNode("rnd")
		ex.tape = append(ex.tape, Draw{Name: "rand_bytes", Kind: "bytes", Node: node, Len: s.len})
		ex.writeBytes(s, c64(ex.ctx, 0), Region{node, c64(ex.ctx, 0), s.len}, s.len)
		return nilErr(), nil
	})
	e.reg("crypto/rand.Read", func(ex *Exec, fn *ssa.Function, args []Value) (Value, *PanicV) {
		ex.noteImpure("crypto/rand.Read")
		s := args[0].(SliceV)
		if isZero(s.len) {
			return TupleV{s.len, nilErr()}, nil
		}
		node := ex.baseNode("rnd")
		ex.tape = append(ex.tape, Draw{Name: "rand_bytes", Kind: "bytes", Node: node, Len: s.len})
		ex.writeBytes(s, c64(ex.ctx, 0), Region{node, c64(ex.ctx, 0), s.len}, s.len)
		return TupleV{s.len, nilErr()}, nil
	})
	e.reg("(*math/rand.Rand).Intn", func(ex *Exec, fn *ssa.Function, args []Value) (Value, *PanicV) {
		c := ex.ctx
		n := argTerm(ex, args[1])
		if pan := ex.rtCheck(c.Slt(c64(c, 0), n), "invalid argument to Intn"); pan != nil {
			pan.runtime = false
			pan.msg = "invalid argument to Intn"
			return nil, pan
		}
		src, pan := ex.randInt63(args[0])
		if pan != nil {
			return nil, pan
		}
		var k *Term
		if cb, ok := ex.st["onintn"].(Value); ok && cb != nil && src.fresh {
			r, pan := ex.callAny(cb, []Value{n}, nil)
			if pan != nil {
				return nil, pan
			}
			k = r.(*Term)
			ex.tape = append(ex.tape, Draw{Name: "rand_intn", Kind: "intn", Term: k, Len: n, Width: 64})
			if in := c.And(c.Sle(c64(c, 0), k), c.Slt(k, n)); !in.IsTrue() {
				if in.IsFalse() || ex.feasible(c.Not(in)) != Unsat {
					ex.unsupported("OnIntn callback returned a value outside [0,n)")
				}
			}
			return k, nil
		}
		if src.fresh {
			k = c.Fresh("intn", BV(64))
			ex.tape = append(ex.tape, Draw{Name: "rand_intn", Kind: "intn", Term: k, Len: n, Width: 64})
		} else {
			k = c.UF("intn_of", BV(64), src.v, n)
		}
		ex.addAxiom(c.And(c.Sle(c64(c, 0), k), c.Slt(k, n)))
		return k, nil
	})
	e.reg(rtPkg+".OnIntn", func(ex *Exec, fn *ssa.Function, args []Value) (Value, *PanicV) {
		ex.st["onintn"] = args[0]
		return nil, nil
	})
	e.reg("(*math/rand.Rand).Int63", func(ex *Exec, fn *ssa.Function, args []Value) (Value, *PanicV) {
		src, pan := ex.randInt63(args[0])
		if pan != nil {
			return nil, pan
		}
		if src.fresh {
			ex.unsupported("Rand.Int63 on CSPRNG source: use csrand model")
		}
		return src.v, nil
	})
	e.reg("(*math/rand.Rand).Uint64", func(ex *Exec, fn *ssa.Function, args []Value) (Value, *PanicV) {
		c := ex.ctx
		src, pan := ex.randInt63(args[0])
		if pan != nil {
			return nil, pan
		}
		if src.fresh {
			// two Int63 draws natively: uint64(a)>>31 | uint64(b)<<32
			a, b := c.Fresh("u64a", BV(64)), c.Fresh("u64b", BV(64))
			ex.addAxiom(c.And(c.Sle(c64(c, 0), a), c.Sle(c64(c, 0), b)))
			ex.tape = append(ex.tape, Draw{Name: "rand_int63", Kind: "int63", Term: a, Width: 64}, Draw{Name: "rand_int63", Kind: "int63", Term: b, Width: 64})
			return c.BOr(c.Lshr(a, c64(c, 31)), c.Shl(b, c64(c, 32))), nil
		}
		return c.UF("u64_of", BV(64), src.v), nil
	})
	e.reg("(*math/rand.Rand).Float64", func(ex *Exec, fn *ssa.Function, args []Value) (Value, *PanicV) {
		c := ex.ctx
		src, pan := ex.randInt63(args[0])
		if pan != nil {
			return nil, pan
		}
		var f *Term
		if src.fresh {
			f = c.Fresh("f64", RealSort)
			ex.tape = append(ex.tape, Draw{Name: "rand_float", Kind: "real", Term: f})
		} else {
			f = c.UF("float_of", RealSort, src.v)
		}
		ex.addAxiom(c.And(c.RLe(c.RealConst(ratZero), f), c.RLt(f, c.RealConst(ratOne))))
		return f, nil
	})
	e.reg("(*math/rand.Rand).Perm", func(ex *Exec, fn *ssa.Function, args []Value) (Value, *PanicV) {
		c := ex.ctx
		nT := argTerm(ex, args[1])
		if pan := ex.rtCheck(c.Sle(c64(c, 0), nT), "invalid argument to Perm"); pan != nil {
			return nil, pan
		}
		n := ex.concretize(nT, 4096, "Perm size")
		src, pan := ex.randInt63(args[0])
		if pan != nil {
			return nil, pan
		}
		// a permutation of [0,n): symbolic, pairwise distinct, in range; a function of the generator state
		es := make([]Value, n)
		var ts []*Term
		for i := 0; i < n; i++ {
			var v *Term
			if src.fresh {
				v = c.Fresh("perm", BV(64))
			} else {
				v = c.UF("perm_of", BV(64), src.v, c64(c, uint64(n)), c64(c, uint64(i)))
			}
			ex.addAxiom(c.Ult(v, c64(c, uint64(n))))
			ts = append(ts, v)
			es[i] = v
		}
		if n <= 16 {
			for i := 0; i < n; i++ {
				for j := i + 1; j < n; j++ {
					ex.addAxiom(c.Not(c.Eq(ts[i], ts[j])))
				}
			}
		} else {
			ex.res.Notes = append(ex.res.Notes, "Perm(n>16): distinctness of elements not asserted (over-approximation)")
		}
		o := ex.newObj(&ArrayV{es}, "perm")
		nn := c64(c, uint64(n))
		return SliceV{base: Ptr{obj: o}, off: c64(c, 0), len: nn, cap: nn}, nil
	})
	_ = strings.Contains
}

var ratOne = mustRat("1")

func (ex *Exec) noteImpure(what string) {
	if l, ok := ex.st["purity"].(*[]string); ok {
		*l = append(*l, what)
	}
}

type int63src struct {
	fresh bool
	v     *Term
}

// randInt63 draws one Int63 from the Source behind a *rand.Rand.
func (ex *Exec) randInt63(r Value) (int63src, *PanicV) {
	p := r.(Ptr)
	sv := ex.load(p).(*StructV)
	src := sv.fields[0].(IfaceV)
	if src.typ == nil {
		ex.unsupported("rand.Rand with nil source")
	}
	if strings.HasSuffix(src.typ.String(), "csrand.csRandSource") {
		ex.noteImpure("csrand source")
		return int63src{fresh: true}, nil
	}
	v, pan, ok := ex.callMethod(src, "Int63")
	if pan != nil {
		return int63src{}, pan
	}
	if !ok {
		ex.unsupported("rand source %v has no Int63", src.typ)
	}
	return int63src{v: v.(*Term)}, nil
}

func (ex *Exec) held() map[string]bool {
	m, ok := ex.st["held"].(map[string]bool)
	if !ok {
		m = map[string]bool{}
		ex.st["held"] = m
	}
	return m
}

func (ex *Exec) ptrKey(p Ptr) string {
	var sb strings.Builder
	sb.WriteString(itoa(p.obj.id))
	for _, s := range p.path {
		sb.WriteByte('.')
		if s.kind == 0 {
			sb.WriteString(itoa(s.field))
		} else if s.idx != nil && s.idx.isConst {
			sb.WriteString("i" + itoa(int(s.idx.cv)))
		} else {
			sb.WriteString("i?")
		}
	}
	return sb.String()
}
