//go:build verif

package obfs4

import (
	"crypto/hmac"
	"crypto/sha256"
	"errors"
	"strconv"
	"time"

	"gitlab.com/yawning/obfs4.git/common/ntor"
	"gitlab.com/yawning/obfs4.git/internal/verifrt"
)

const vNow = 1700000000 // frozen clock of the handshake harnesses (hour 472222)

// vHonestExchange runs the real client request generation and the real server on it.
// It returns the factory, the client's session key, and everything the server wrote.
func vHonestExchange() (*obfs4ServerFactory, *ntor.Keypair, *verifrt.Conn, *obfs4Conn) {
	sf := vServerFactory()
	clientKey, err := ntor.NewKeypair(true)
	verifrt.Assume(err == nil)
	hs := newClientHandshake(sf.nodeID, sf.identityKey.Public(), clientKey)
	blob, err := hs.generateHandshake()
	verifrt.Assume(err == nil)
	sc := verifrt.NewConn("srv", blob)
	sc.MaxChunks = 1
	srv := vServerConn(sf, sc)
	serverKey, err := ntor.NewKeypair(true)
	verifrt.Assume(err == nil)
	err = srv.serverHandshake(sf, serverKey)
	verifrt.Assert(err == nil, "the real server accepts the real client's handshake")
	return sf, clientKey, sc, srv
}

// VerifC02Complete: lemma H2 – honest handshake completes and both ends hold the same
// session keys: data flows both ways.
func VerifC02Complete() {
	verifrt.Ideal()
	verifrt.SetClock(vNow)
	padClasses()
	verifrt.OnSample(func(min, max int) int { return 0 })
	sf, clientKey, sc, srv := vHonestExchange()
	cc := verifrt.NewConn("cli", sc.Out)
	cc.MaxChunks = 1
	cc.EOFAtEnd = true
	client := vClientConn(cc)
	err := client.clientHandshake(sf.nodeID, sf.identityKey.Public(), clientKey)
	verifrt.Assert(err == nil, "the client completes the handshake with the holder of the identity key")
	verifrt.Assert(client.encoder != nil && client.decoder != nil, "link keys installed")

	// client -> server
	up := verifrt.Bytes("up", 3)
	_, err = client.Write(up)
	verifrt.Assume(err == nil)
	sc2 := verifrt.NewConn("srv2", cc.Out[len(cc.Out)-(len(cc.Out)-cc.WriteSizes[0]):])
	sc2.MaxChunks = 1
	sc2.EOFAtEnd = true
	srv.Conn = sc2
	buf := make([]byte, 16)
	n, err := srv.Read(buf)
	verifrt.Assert(err == nil && verifrt.Equal(buf[:n], up), "the server reads what the client wrote (same session keys)")
	verifrt.Reach("end")
}

// VerifC02Tamper: lemma H3 – any modification of one byte of a genuine server response
// makes the client's handshake fail, with no keys installed.
func VerifC02Tamper() {
	verifrt.Ideal()
	verifrt.SetClock(vNow)
	padClasses()
	sf, clientKey, sc, _ := vHonestExchange()
	resp := sc.Out[:len(sc.Out)-inlineSeedFrameLength]
	rl := len(resp)
	offs := []int{0, 31, 32, 63, rl - 32, rl - 17, rl - 16, rl - 1, 64}
	off := offs[verifrt.Pick("tamper_field", 0, len(offs)-1)]
	verifrt.Assume(off < rl)
	delta := verifrt.Byte("mask")
	verifrt.Assume(delta != 0)
	verifrt.Witness(off)
	var tampered []byte
	tampered = append(tampered, sc.Out...)
	tampered[off] ^= delta

	cc := verifrt.NewConn("cli", tampered)
	cc.MaxChunks = 1
	cc.EOFAtEnd = true
	client := vClientConn(cc)
	err := client.clientHandshake(sf.nodeID, sf.identityKey.Public(), clientKey)
	verifrt.Assert(err != nil, "a modified server response is never accepted")
	verifrt.Assert(client.encoder == nil && client.decoder == nil, "no link keys are installed on failure")
	verifrt.Reach("end")
}

// impostorResponse builds a response from public information only (valid mark and MAC_S)
// around the given AUTH value.
func impostorResponse(nodeID *ntor.NodeID, b *ntor.PublicKey, yRepr, auth, pad []byte, hour int64) []byte {
	mac := hmac.New(sha256.New, append(append([]byte{}, b[:]...), nodeID[:]...))
	mac.Write(yRepr)
	mark := mac.Sum(nil)[:markLength]
	var resp []byte
	resp = append(resp, yRepr...)
	resp = append(resp, auth...)
	resp = append(resp, pad...)
	resp = append(resp, mark...)
	mac.Reset()
	mac.Write(resp)
	mac.Write([]byte(strconv.FormatInt(hour, 10)))
	resp = append(resp, mac.Sum(nil)[:macLength]...)
	return resp
}

// VerifC02Impostor: lemma H4 – a peer that knows the whole public bridge line (so it can
// produce a valid mark and MAC_S) but not the identity private key cannot complete: every
// AUTH value other than the one the client derives is refused.
func VerifC02Impostor() {
	verifrt.SetClock(vNow)
	verifrt.OnIntn(func(n int) int { return 0 })
	sf := vServerFactory()
	clientKey, err := ntor.NewKeypair(true)
	verifrt.Assume(err == nil)
	impostorKey, err := ntor.NewKeypair(true)
	verifrt.Assume(err == nil)
	// the AUTH the client will derive for this (X, Y, B, ID)
	ok, _, authTrue := ntor.ClientHandshake(clientKey, impostorKey.Public(), sf.identityKey.Public(), sf.nodeID)
	verifrt.Assume(ok)
	auth := verifrt.Bytes("forged_auth", ntor.AuthLength)
	verifrt.Assume(!verifrt.Equal(auth, authTrue.Bytes()[:]))
	resp := impostorResponse(sf.nodeID, sf.identityKey.Public(), impostorKey.Representative().Bytes()[:], auth, nil, vNow/3600)

	cc := verifrt.NewConn("cli", resp)
	cc.MaxChunks = 1
	cc.EOFAtEnd = true
	client := vClientConn(cc)
	err = client.clientHandshake(sf.nodeID, sf.identityKey.Public(), clientKey)
	verifrt.Assert(err != nil, "a response with valid mark/MAC but a wrong AUTH is refused")
	var ae *InvalidAuthError
	verifrt.Assert(errors.As(err, &ae), "the failure is the AUTH mismatch")
	verifrt.Assert(client.encoder == nil && client.decoder == nil, "no link keys are installed")
	verifrt.Reach("end")
}

// VerifC02WrongBridgeLine: a client configured with a different node ID or public key
// never completes against the real server.
func VerifC02WrongBridgeLine() {
	verifrt.Ideal()
	verifrt.SetClock(vNow)
	verifrt.OnIntn(func(n int) int { return 0 })
	sf := vServerFactory()
	clientKey, err := ntor.NewKeypair(true)
	verifrt.Assume(err == nil)
	id2 := new(ntor.NodeID)
	*id2 = *sf.nodeID
	b2 := new(ntor.PublicKey)
	*b2 = *sf.identityKey.Public()
	pos := verifrt.IntRange("pos", 0, 19)
	delta := verifrt.Byte("mask")
	verifrt.Assume(delta != 0)
	verifrt.Witness(pos)
	verifrt.Witness(pos + 32)
	if verifrt.Pick("which", 0, 1) == 0 {
		id2[pos] ^= delta
	} else {
		b2[pos] ^= delta
	}
	hs := newClientHandshake(id2, b2, clientKey)
	blob, err := hs.generateHandshake()
	verifrt.Assume(err == nil)
	sc := verifrt.NewConn("srv", blob)
	sc.MaxChunks = 1
	sc.EOFAtEnd = true
	srv := vServerConn(sf, sc)
	serverKey, err := ntor.NewKeypair(true)
	verifrt.Assume(err == nil)
	err = srv.serverHandshake(sf, serverKey)
	verifrt.Assert(err != nil, "the server refuses a handshake made for another node ID / identity key")
	verifrt.Assert(len(sc.Out) == 0, "and stays silent")
	verifrt.Reach("end")
}

// ---------- C03 ----------

// VerifC03Silent: lemmas S1/S2/S4 – WrapConn on an arbitrary probe: nothing is written
// unless the handshake validated; every failure ends in the same delayed close.
func VerifC03Silent() {
	t0 := int64(vNow)
	verifrt.SetClock(t0)
	verifrt.OnIntn(func(n int) int { return 0 })
	sf := vServerFactory()
	lens := []int{0, 1, clientMinHandshakeLength - 1, clientMinHandshakeLength, clientMinHandshakeLength + 1, 300, maxHandshakeLength, maxHandshakeLength + 1}
	n := lens[verifrt.Pick("probe_len_class", 0, verifrt.Param("len_classes")-1)]
	probe := verifrt.Bytes("probe", n)
	sc := verifrt.NewConn("probe", probe)
	sc.MaxChunks = 2
	sc.EOFAtEnd = verifrt.Bool("peer_closes")
	sc.FailRead = verifrt.IntRange("fail_read", -1, 2)
	sc.FailDeadline = verifrt.IntRange("fail_deadline", -1, 2)

	conn, err := sf.WrapConn(sc)
	if err == nil {
		verifrt.Reach("valid handshake (the probe happened to be one)")
		verifrt.Assert(conn != nil, "a connection is returned on success")
		return
	}
	verifrt.Reach("rejected")
	verifrt.Assert(conn == nil, "no connection on failure")
	verifrt.Assert(len(sc.Out) == 0 && sc.NWrites == 0, "not a single byte is sent to a peer that did not validate")
	verifrt.Assert(sc.Closed && sc.NCloses == 1, "the connection is closed exactly once")
	// handshake deadline armed before the first read
	if sc.NReads > 0 && sc.FailDeadline != 0 {
		verifrt.Assert(len(sc.Deadlines) > 0 && sc.Deadlines[0].Kind == "all" && sc.Deadlines[0].Op < sc.ReadOps[0], "handshake deadline armed before the first read")
		verifrt.Assert(sc.Deadlines[0].T.Equal(time.Unix(t0, 0).Add(serverHandshakeTimeout)), "handshake deadline is accept time + 30 s")
	}
	// delayed close: the read deadline is accept time + 30 s + closeDelay, then input is discarded, then Close
	if last := len(sc.Deadlines) - 1; last >= 0 && sc.Deadlines[last].Kind == "read" {
		want := time.Unix(t0, 0).Add(serverHandshakeTimeout + time.Duration(sf.closeDelay)*time.Second)
		verifrt.Assert(sc.Deadlines[last].T.Equal(want), "drop deadline = accept time + 30 s + closeDelay, whatever the probe was")
		verifrt.Assert(sc.Deadlines[last].Op < sc.CloseOp, "Close happens after the deadline was armed")
		verifrt.Assert(sc.Unread() == 0 || sc.FailRead >= 0, "input is consumed and discarded until the deadline fires or the peer goes away")
		verifrt.Reach("delayed close")
	} else {
		// only reachable when arming the deadline itself failed
		verifrt.Assert(sc.FailDeadline >= 0, "the delayed close is skipped only when the deadline cannot be armed")
	}
	verifrt.Reach("end")
}

// VerifC03CloseDelay: lemmas S2/S3 – closeAfterDelay with an arbitrary accept time and a
// free-running clock: the drop deadline is accept time + 30 s + closeDelay (30..90 s), or the
// connection is closed at once when that moment has passed.
func VerifC03CloseDelay() {
	sf := &obfs4ServerFactory{closeDelay: verifrt.IntRange("closeDelay", 0, maxCloseDelay-1)}
	start := verifrt.Int64("accept_unix")
	verifrt.Assume(start > 1000000000 && start < 4000000000)
	sc := verifrt.NewConn("probe", verifrt.Bytes("more", 5))
	sc.MaxChunks = 1
	c := &obfs4Conn{Conn: sc}
	startTime := time.Unix(start, 0)
	c.closeAfterDelay(sf, startTime)
	verifrt.Assert(sc.Closed, "closed in the end")
	delay := 30 + sf.closeDelay
	verifrt.Assert(delay >= 30 && delay < 90, "delay is 30..90 s")
	if len(sc.Deadlines) > 0 {
		verifrt.Reach("deadline armed")
		verifrt.Assert(sc.Deadlines[0].Kind == "read", "a read deadline")
		verifrt.Assert(sc.Deadlines[0].T.Unix() == start+int64(delay), "deadline = accept time + 30 s + closeDelay")
		verifrt.Assert(sc.DeadlineFired > 0 || sc.Unread() == 0, "discards until the deadline")
	} else {
		verifrt.Reach("already late")
	}
	verifrt.Reach("end")
}

// ---------- C04 ----------

func vRequest(sf *obfs4ServerFactory, hourOffset int, name string) []byte {
	clientKey, err := ntor.NewKeypair(true)
	verifrt.Assume(err == nil)
	if !verifrt.Symbolic() {
		// native replay: the real clock cannot be moved, so the request stamped E+offset is
		// built by the reference client (same wire format, lemma W1 of C06)
		hour := time.Now().Unix()/3600 + int64(hourOffset)
		xr := clientKey.Representative().Bytes()[:]
		pad := make([]byte, clientMinPadLength)
		for i := range pad {
			pad[i] = byte(i*7 + len(name))
		}
		var blob []byte
		blob = append(blob, xr...)
		blob = append(blob, pad...)
		blob = append(blob, refMark(sf.identityKey.Public(), sf.nodeID, xr)...)
		blob = append(blob, refMac(sf.identityKey.Public(), sf.nodeID, blob, hour)...)
		return blob
	}
	verifrt.SetClock(vNow + int64(hourOffset)*3600)
	hs := newClientHandshake(sf.nodeID, sf.identityKey.Public(), clientKey)
	blob, err := hs.generateHandshake()
	verifrt.Assume(err == nil)
	verifrt.SetClock(vNow)
	return blob
}

func vSubmit(sf *obfs4ServerFactory, blob []byte, name string) (*verifrt.Conn, *serverHandshake, error) {
	sc := verifrt.NewConn(name, blob)
	sc.MaxChunks = 1
	sc.EOFAtEnd = true
	srv := vServerConn(sf, sc)
	serverKey, err := ntor.NewKeypair(true)
	verifrt.Assume(err == nil)
	hs := newServerHandshake(sf.nodeID, sf.identityKey, serverKey)
	_, perr := hs.parseClientHandshake(sf.replayFilter, blob)
	_ = srv
	return sc, hs, perr
}

// VerifC04Window: lemmas E1/E2 – a handshake stamped E+d is accepted iff d in {-1,0,1}, and
// the server echoes the client's hour.
func VerifC04Window() {
	verifrt.Ideal()
	verifrt.SetClock(vNow)
	verifrt.OnIntn(func(n int) int { return 0 })
	sf := vServerFactory()
	d := verifrt.Pick("hour_offset", 0, 6) - 3
	blob := vRequest(sf, d, "a")
	_, hs, err := vSubmit(sf, blob, "s1")
	if d >= -1 && d <= 1 {
		verifrt.Assert(err == nil, "previous, current and next hour are accepted")
		want := strconv.FormatInt(vNow/3600+int64(d), 10)
		verifrt.Assert(string(hs.epochHour) == want, "the reply is bound to the hour the client used")
		// ... and the response MAC is computed over that hour (E' = E of the request), so a
		// client whose clock is an hour off still verifies it
		resp, gerr := hs.generateHandshake()
		verifrt.Assume(gerr == nil)
		rl := len(resp)
		verifrt.Assert(verifrt.Equal(resp[rl-macLength:], refMac(sf.identityKey.Public(), sf.nodeID, resp[:rl-macLength], vNow/3600+int64(d))), "MAC_S covers the client's hour, not the server's")
	} else {
		verifrt.Assert(err != nil, "any other hour is rejected")
	}
	verifrt.Reach("end")
}

// VerifC04Replay: lemma E3 – histories of fresh and replayed handshakes against one bridge:
// A, B (fresh, any hour of the window each), then A again: the replay is refused like an
// invalid handshake, the fresh ones are accepted.
func VerifC04Replay() {
	verifrt.Ideal()
	verifrt.SetClock(vNow)
	verifrt.OnIntn(func(n int) int { return 0 })
	// representative concrete key material / padding (distinct per draw): the replay logic
	// does not depend on the key values; C02/C08 quantify over the keys
	ctr := byte(0)
	verifrt.OnRandBytes(func(n int) []byte {
		ctr++
		b := make([]byte, n)
		for i := range b {
			b[i] = ctr
		}
		return b
	})
	sf := vServerFactory()
	d1 := []int{1, 0, -1}[verifrt.Pick("hour_offset_a", 0, verifrt.Param("hour_classes")-1)]
	d2 := []int{-1, 0, 1}[verifrt.Pick("hour_offset_b", 0, verifrt.Param("hour_classes")-1)]
	a := vRequest(sf, d1, "a")
	b := vRequest(sf, d2, "b")
	_, _, err := vSubmit(sf, a, "s1")
	verifrt.Assert(err == nil, "fresh handshake A accepted")
	_, _, err = vSubmit(sf, b, "s2")
	verifrt.Assert(err == nil, "fresh handshake B accepted")
	_, _, err = vSubmit(sf, a, "s3")
	verifrt.Assert(errors.Is(err, ErrReplayedHandshake), "a byte-identical replay of A is refused")
	if verifrt.Param("full_path") == 0 {
		verifrt.Reach("end")
		return
	}
	// through the real server path the replay is silent
	sc := verifrt.NewConn("replay", a)
	sc.MaxChunks = 1
	sc.EOFAtEnd = true
	srv := vServerConn(sf, sc)
	serverKey, kerr := ntor.NewKeypair(true)
	verifrt.Assume(kerr == nil)
	err = srv.serverHandshake(sf, serverKey)
	verifrt.Assert(err != nil && len(sc.Out) == 0, "the replay gets no answer")
	verifrt.Reach("end")
}

// VerifC04ReplayLate: lemma E3 across time – a handshake stays replayable for as long as its
// hour stamp stays inside the window, so the filter has to remember it that long: A stamped
// E+1 is accepted at server hour E, and is still refused *as a replay* one and two hours later
// (its stamp is then E'+0 and E'-1); three hours later it is out of the window.
func VerifC04ReplayLate() {
	verifrt.Ideal()
	verifrt.SetClock(vNow)
	verifrt.OnIntn(func(n int) int { return 0 })
	ctr := byte(0)
	verifrt.OnRandBytes(func(n int) []byte {
		ctr++
		b := make([]byte, n)
		for i := range b {
			b[i] = ctr
		}
		return b
	})
	sf := vServerFactory()
	a := vRequest(sf, 1, "a")
	_, _, err := vSubmit(sf, a, "s1")
	verifrt.Assert(err == nil, "fresh handshake A (stamped one hour ahead) accepted")
	later := verifrt.Pick("hours_later", 1, 3)
	// just before the end of that hour: the longest the entry has to survive
	verifrt.SetClock((vNow/3600+int64(later))*3600 + 3599)
	_, _, err = vSubmit(sf, a, "s2")
	if later <= 2 {
		verifrt.Assert(errors.Is(err, ErrReplayedHandshake), "A is still inside the window one / two hours later and is refused as a replay")
	} else {
		verifrt.Assert(err != nil, "three hours later A is outside the window")
	}
	verifrt.Reach("end")
}

// VerifC03TrailingGarbage: S1 – a genuine client handshake followed by extra bytes is not a
// valid handshake ("the client never sends trailing garbage"): the server stays silent, also
// for the maximal handshake length where the mark still sits at the tail of the 8192-byte window.
func VerifC03TrailingGarbage() {
	verifrt.Ideal()
	verifrt.SetClock(vNow)
	maxPad := verifrt.Pick("max_pad", 0, 1) == 1
	verifrt.OnIntn(func(n int) int {
		if maxPad {
			return n - 1
		}
		return 0
	})
	sf := vServerFactory()
	clientKey, err := ntor.NewKeypair(true)
	verifrt.Assume(err == nil)
	hs := newClientHandshake(sf.nodeID, sf.identityKey.Public(), clientKey)
	blob, err := hs.generateHandshake()
	verifrt.Assume(err == nil)
	k := []int{1, 5}[verifrt.Pick("garbage_len_class", 0, 1)]
	in := append(append([]byte{}, blob...), verifrt.Bytes("garbage", k)...)
	sc := verifrt.NewConn("srv", in)
	sc.MaxChunks = 1
	sc.EOFAtEnd = true
	cuts := []int{0, len(blob) - 1, len(blob), 100}
	if c := cuts[verifrt.Pick("cut", 0, len(cuts)-1)]; c > 0 {
		sc.Cuts = []int{c}
	}
	srv := vServerConn(sf, sc)
	serverKey, err := ntor.NewKeypair(true)
	verifrt.Assume(err == nil)
	err = srv.serverHandshake(sf, serverKey)
	if sc.Unread() == 0 {
		// the whole input (handshake + garbage) was seen by the parser
		verifrt.Assert(err != nil, "a handshake with trailing garbage is refused")
	}
	if err != nil {
		verifrt.Assert(len(sc.Out) == 0, "and nothing is sent")
	} else {
		verifrt.Reach("accepted before the garbage arrived")
	}
	verifrt.Reach("end")
}
