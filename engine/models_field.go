package main

// Model of filippo.io/edwards25519/field.Element for the C07 glue lemmas: an element is
// its canonical integer in [0, p), p = 2^255-19, as a 260-bit vector. Add/Subtract/Negate/
// Mult32(.,2)/Select/Bytes/SetBytes/Equal/IsNegative/Absolute are exact; Multiply/Square/
// Invert/SqrtRatio are computed exactly when the operands are concrete and are
// uninterpreted functions (with results in [0,p)) otherwise.

import (
	"math/big"

	"golang.org/x/tools/go/ssa"
)

const feW = 260

type FeV struct{ t *Term }

var feP = new(big.Int).Sub(new(big.Int).Lsh(big.NewInt(1), 255), big.NewInt(19))

func (ex *Exec) feGet(v Value) *Term {
	p := v.(Ptr)
	if p.IsNil() {
		ex.unsupported("nil *field.Element")
	}
	sv := ex.load(p).(*StructV)
	if f, ok := sv.fields[0].(FeV); ok {
		return f.t
	}
	// zero value of the struct
	for _, x := range sv.fields {
		t, ok := x.(*Term)
		if !ok || !t.isConst || t.cv != 0 {
			ex.unsupported("field.Element not produced by the model")
		}
	}
	return ex.ctx.zero(feW)
}

func (ex *Exec) feSet(v Value, t *Term) Value {
	p := v.(Ptr)
	sv := ex.load(p).(*StructV)
	fs := make([]Value, len(sv.fields))
	copy(fs, sv.fields)
	fs[0] = FeV{t}
	ex.store(p, &StructV{fs})
	return p
}

func (ex *Exec) feConst(v *big.Int) *Term { return ex.ctx.BVBig(new(big.Int).Mod(v, feP), feW) }

// reduce once: x in [0, 2p) -> [0, p)
func (ex *Exec) feReduce1(x *Term) *Term {
	c := ex.ctx
	p := c.BVBig(feP, feW)
	return c.Ite(c.Ule(p, x), c.Sub(x, p), x)
}

func (ex *Exec) feUF(name string, args ...*Term) *Term {
	c := ex.ctx
	r := c.UF(name, BV(feW), args...)
	ex.addAxiom(c.Ult(r, c.BVBig(feP, feW)))
	return r
}

func (ex *Exec) feMul(a, b *Term) *Term {
	if a.isConst && b.isConst {
		return ex.feConst(new(big.Int).Mul(a.BigVal(), b.BigVal()))
	}
	if a.isConst && a.BigVal().Sign() == 0 || b.isConst && b.BigVal().Sign() == 0 {
		return ex.ctx.zero(feW)
	}
	if a.isConst && a.BigVal().Cmp(big.NewInt(1)) == 0 {
		return b
	}
	if b.isConst && b.BigVal().Cmp(big.NewInt(1)) == 0 {
		return a
	}
	if a.id > b.id {
		a, b = b, a // commutative
	}
	return ex.feUF("femul", a, b)
}

// concrete sqrt ratio as in the ristretto / edwards25519 field package
func feSqrtRatioConcrete(u, v *big.Int) (*big.Int, bool) {
	p := feP
	if u.Sign() == 0 {
		return big.NewInt(0), true
	}
	if v.Sign() == 0 {
		return big.NewInt(0), false
	}
	x := new(big.Int).Mul(u, new(big.Int).ModInverse(v, p))
	x.Mod(x, p)
	abs := func(r *big.Int) *big.Int {
		if r.Bit(0) == 1 {
			return new(big.Int).Sub(p, r)
		}
		return r
	}
	if r := new(big.Int).ModSqrt(x, p); r != nil {
		return abs(r), true
	}
	sqrtM1 := new(big.Int).Exp(big.NewInt(2), new(big.Int).Rsh(new(big.Int).Sub(p, big.NewInt(1)), 2), p)
	ix := new(big.Int).Mul(sqrtM1, x)
	ix.Mod(ix, p)
	r := new(big.Int).ModSqrt(ix, p)
	if r == nil {
		return big.NewInt(0), false
	}
	return abs(r), false
}

func registerField(e *Engine) {
	F := "(*filippo.io/edwards25519/field.Element)."
	e.reg(F+"Zero", func(ex *Exec, fn *ssa.Function, args []Value) (Value, *PanicV) {
		return ex.feSet(args[0], ex.ctx.zero(feW)), nil
	})
	e.reg(F+"One", func(ex *Exec, fn *ssa.Function, args []Value) (Value, *PanicV) {
		return ex.feSet(args[0], ex.ctx.BVConst(1, feW)), nil
	})
	e.reg(F+"Set", func(ex *Exec, fn *ssa.Function, args []Value) (Value, *PanicV) {
		return ex.feSet(args[0], ex.feGet(args[1])), nil
	})
	e.reg(F+"SetBytes", func(ex *Exec, fn *ssa.Function, args []Value) (Value, *PanicV) {
		c := ex.ctx
		r := ex.sliceRegion(args[1].(SliceV))
		if !ex.branch(c.Eq(r.n, c64(c, 32))) {
			return TupleV{Ptr{}, ex.errorString("edwards25519: invalid field element input size")}, nil
		}
		// little endian, top bit ignored, non-canonical values reduced
		var t *Term
		for i := 31; i >= 0; i-- {
			b := ex.regAt(r, c64(c, uint64(i)))
			if i == 31 {
				b = c.BAnd(b, c.BVConst(0x7f, 8))
				t = b
			} else {
				t = c.Concat(t, b)
			}
		}
		v := ex.feReduce1(c.ZExt(t, feW))
		return TupleV{ex.feSet(args[0], v), nilErr()}, nil
	})
	e.reg(F+"Bytes", func(ex *Exec, fn *ssa.Function, args []Value) (Value, *PanicV) {
		c := ex.ctx
		t := ex.feGet(args[0])
		return ex.newByteSlice(ex.bvNode(c.Extract(t, 255, 0), 32, false), c64(c, 32), c64(c, 32)), nil
	})
	e.reg(F+"Add", func(ex *Exec, fn *ssa.Function, args []Value) (Value, *PanicV) {
		return ex.feSet(args[0], ex.feReduce1(ex.ctx.Add(ex.feGet(args[1]), ex.feGet(args[2])))), nil
	})
	neg := func(ex *Exec, a *Term) *Term {
		c := ex.ctx
		return c.Ite(c.Eq(a, c.zero(feW)), a, c.Sub(c.BVBig(feP, feW), a))
	}
	e.reg(F+"Negate", func(ex *Exec, fn *ssa.Function, args []Value) (Value, *PanicV) {
		return ex.feSet(args[0], neg(ex, ex.feGet(args[1]))), nil
	})
	e.reg(F+"Subtract", func(ex *Exec, fn *ssa.Function, args []Value) (Value, *PanicV) {
		return ex.feSet(args[0], ex.feReduce1(ex.ctx.Add(ex.feGet(args[1]), neg(ex, ex.feGet(args[2]))))), nil
	})
	e.reg(F+"Multiply", func(ex *Exec, fn *ssa.Function, args []Value) (Value, *PanicV) {
		return ex.feSet(args[0], ex.feMul(ex.feGet(args[1]), ex.feGet(args[2]))), nil
	})
	e.reg(F+"Square", func(ex *Exec, fn *ssa.Function, args []Value) (Value, *PanicV) {
		a := ex.feGet(args[1])
		return ex.feSet(args[0], ex.feMul(a, a)), nil
	})
	e.reg(F+"Mult32", func(ex *Exec, fn *ssa.Function, args []Value) (Value, *PanicV) {
		a := ex.feGet(args[1])
		k := argTerm(ex, args[2])
		if !k.isConst {
			ex.unsupported("Mult32 by a symbolic factor")
		}
		if a.isConst {
			return ex.feSet(args[0], ex.feConst(new(big.Int).Mul(a.BigVal(), k.BigVal()))), nil
		}
		if k.cv == 2 {
			return ex.feSet(args[0], ex.feReduce1(ex.ctx.Add(a, a))), nil
		}
		return ex.feSet(args[0], ex.feUF("femul32", a, ex.ctx.ZExt(k, feW))), nil
	})
	e.reg(F+"Invert", func(ex *Exec, fn *ssa.Function, args []Value) (Value, *PanicV) {
		a := ex.feGet(args[1])
		if a.isConst {
			if a.BigVal().Sign() == 0 {
				return ex.feSet(args[0], a), nil
			}
			return ex.feSet(args[0], ex.feConst(new(big.Int).ModInverse(a.BigVal(), feP))), nil
		}
		return ex.feSet(args[0], ex.feUF("feinv", a)), nil
	})
	e.reg(F+"SqrtRatio", func(ex *Exec, fn *ssa.Function, args []Value) (Value, *PanicV) {
		c := ex.ctx
		u, w := ex.feGet(args[1]), ex.feGet(args[2])
		if u.isConst && w.isConst {
			r, sq := feSqrtRatioConcrete(u.BigVal(), w.BigVal())
			return TupleV{ex.feSet(args[0], ex.feConst(r)), c64(c, uint64(boolInt(sq)))}, nil
		}
		r := ex.feUF("fesqrt", u, w)
		// the result is the non-negative root (even)
		ex.addAxiom(c.Eq(c.Extract(r, 0, 0), c.BVConst(0, 1)))
		sq := c.UF("fewassquare", BoolSort, u, w)
		return TupleV{ex.feSet(args[0], r), c.Ite(sq, c64(c, 1), c64(c, 0))}, nil
	})
	e.reg(F+"Select", func(ex *Exec, fn *ssa.Function, args []Value) (Value, *PanicV) {
		c := ex.ctx
		a, b := ex.feGet(args[1]), ex.feGet(args[2])
		cond := argTerm(ex, args[3])
		return ex.feSet(args[0], c.Ite(c.Eq(cond, c64(c, 1)), a, b)), nil
	})
	e.reg(F+"Equal", func(ex *Exec, fn *ssa.Function, args []Value) (Value, *PanicV) {
		c := ex.ctx
		return c.Ite(c.Eq(ex.feGet(args[0]), ex.feGet(args[1])), c64(c, 1), c64(c, 0)), nil
	})
	e.reg(F+"IsNegative", func(ex *Exec, fn *ssa.Function, args []Value) (Value, *PanicV) {
		c := ex.ctx
		return c.ZExt(c.Extract(ex.feGet(args[0]), 0, 0), 64), nil
	})
	e.reg(F+"Absolute", func(ex *Exec, fn *ssa.Function, args []Value) (Value, *PanicV) {
		c := ex.ctx
		a := ex.feGet(args[1])
		return ex.feSet(args[0], c.Ite(c.Eq(c.Extract(a, 0, 0), c.BVConst(1, 1)), neg(ex, a), a)), nil
	})
	// Elligator 2 forward map (edwards25519-extra): uninterpreted function of the field element
	e.reg("gitlab.com/yawning/edwards25519-extra/elligator2.MontgomeryFlavor", func(ex *Exec, fn *ssa.Function, args []Value) (Value, *PanicV) {
		r := ex.feGet(args[0])
		ft := ex.eng.pkgs["filippo.io/edwards25519/field"].Type("Element").Type()
		mk := func(t *Term) Value {
			o := ex.newObj(ex.zeroValue(ft), "fe")
			return ex.feSet(Ptr{obj: o}, t)
		}
		st := ex.st["ell2map_calls"]
		n, _ := st.(int)
		ex.st["ell2map_calls"] = n + 1
		ex.st["ell2map_last"] = r
		return TupleV{mk(ex.feUF("ell2map_u", r)), mk(ex.feUF("ell2map_v", r))}, nil
	})
	// verifrt.LastEll2Input(): the canonical integer (low 256 bits, little endian bytes) last given to the map
	e.reg(rtPkg+".LastEll2Input", func(ex *Exec, fn *ssa.Function, args []Value) (Value, *PanicV) {
		c := ex.ctx
		t, ok := ex.st["ell2map_last"].(*Term)
		if !ok {
			return ex.newByteSlice(ex.zeroNode(), c64(c, 0), c64(c, 0)), nil
		}
		return ex.newByteSlice(ex.bvNode(c.Extract(t, 255, 0), 32, false), c64(c, 32), c64(c, 32)), nil
	})
}

func registerEdwards(e *Engine) {
	ED := "filippo.io/edwards25519"
	feType := func(ex *Exec) Value {
		ft := ex.eng.pkgs["filippo.io/edwards25519/field"].Type("Element").Type()
		return ex.zeroValue(ft)
	}
	setPoint := func(ex *Exec, p Ptr, coords [4]*Term) {
		sv := ex.load(p).(*StructV)
		fs := make([]Value, len(sv.fields))
		copy(fs, sv.fields)
		for i := 0; i < 4; i++ {
			el := feType(ex).(*StructV)
			efs := append([]Value{}, el.fields...)
			efs[0] = FeV{coords[i]}
			fs[i] = &StructV{efs}
		}
		ex.store(p, &StructV{fs})
	}
	getPoint := func(ex *Exec, p Ptr) [4]*Term {
		sv := ex.load(p).(*StructV)
		var out [4]*Term
		for i := 0; i < 4; i++ {
			el := sv.fields[i].(*StructV)
			if f, ok := el.fields[0].(FeV); ok {
				out[i] = f.t
			} else {
				out[i] = ex.ctx.zero(feW)
			}
		}
		return out
	}
	e.reg("(*"+ED+".Scalar).SetBytesWithClamping", func(ex *Exec, fn *ssa.Function, args []Value) (Value, *PanicV) {
		c := ex.ctx
		r := ex.sliceRegion(args[1].(SliceV))
		if !ex.branch(c.Eq(r.n, c64(c, 32))) {
			return TupleV{Ptr{}, ex.errorString("edwards25519: invalid SetBytesWithClamping input length")}, nil
		}
		ex.st["scalar:"+ex.ptrKey(args[0].(Ptr))] = ex.regionBV(r, 32)
		return TupleV{args[0], nilErr()}, nil
	})
	e.reg("(*"+ED+".Point).ScalarBaseMult", func(ex *Exec, fn *ssa.Function, args []Value) (Value, *PanicV) {
		s, _ := ex.st["scalar:"+ex.ptrKey(args[1].(Ptr))].(*Term)
		if s == nil {
			ex.unsupported("ScalarBaseMult of a scalar not set by the model")
		}
		z := ex.ctx.ZExt(s, feW)
		setPoint(ex, args[0].(Ptr), [4]*Term{ex.feUF("bm_x", z), ex.feUF("bm_y", z), ex.feUF("bm_z", z), ex.feUF("bm_t", z)})
		return args[0], nil
	})
	e.reg("(*"+ED+".Point).SetExtendedCoordinates", func(ex *Exec, fn *ssa.Function, args []Value) (Value, *PanicV) {
		co := [4]*Term{ex.feGet(args[1]), ex.feGet(args[2]), ex.feGet(args[3]), ex.feGet(args[4])}
		ex.st["lastpoint"] = co
		setPoint(ex, args[0].(Ptr), co)
		return TupleV{args[0], nilErr()}, nil
	})
	e.reg("(*"+ED+".Point).Add", func(ex *Exec, fn *ssa.Function, args []Value) (Value, *PanicV) {
		a, b := getPoint(ex, args[1].(Ptr)), getPoint(ex, args[2].(Ptr))
		all := append(a[:], b[:]...)
		setPoint(ex, args[0].(Ptr), [4]*Term{ex.feUF("pa_x", all...), ex.feUF("pa_y", all...), ex.feUF("pa_z", all...), ex.feUF("pa_t", all...)})
		return args[0], nil
	})
	e.reg("(*"+ED+".Point).ExtendedCoordinates", func(ex *Exec, fn *ssa.Function, args []Value) (Value, *PanicV) {
		co := getPoint(ex, args[0].(Ptr))
		var out TupleV
		for i := 0; i < 4; i++ {
			o := ex.newObj(feType(ex), "fe")
			out = append(out, ex.feSet(Ptr{obj: o}, co[i]))
		}
		return out, nil
	})
	// verifrt.LastPointXY(): affine x, y (32 bytes each, little endian) of the last point built
	// with SetExtendedCoordinates (its Z is one in the code under test)
	e.reg(rtPkg+".LastPointXY", func(ex *Exec, fn *ssa.Function, args []Value) (Value, *PanicV) {
		c := ex.ctx
		co, ok := ex.st["lastpoint"].([4]*Term)
		if !ok {
			e := ex.newByteSlice(ex.zeroNode(), c64(c, 0), c64(c, 0))
			return TupleV{e, e}, nil
		}
		mk := func(t *Term) Value {
			return ex.newByteSlice(ex.bvNode(c.Extract(t, 255, 0), 32, false), c64(c, 32), c64(c, 32))
		}
		return TupleV{mk(co[0]), mk(co[1])}, nil
	})
}
