package main

// Translator / model validation: the TV programs of rt/verifrt/tv.go are run natively
// (golden observations, cached per content hash) and by the engine with concrete values;
// the observation lists must be identical.

import (
	"crypto/sha256"
	"encoding/hex"
	"encoding/json"
	"fmt"
	"os"
	"os/exec"
	"path/filepath"
	"sort"
	"strings"

	"golang.org/x/tools/go/ssa"
)

var tvPrograms = map[string]string{
	"arith": "TVArith", "slices": "TVSlices", "buffer": "TVBuffer", "time": "TVTime", "utf8": "TVUtf8",
	"encoders": "TVEncoders", "errors": "TVErrors", "field": "TVField", "netip": "TVNetIP",
}

func registerTV(e *Engine) {
	out := func(format func(ex *Exec, v Value) (string, bool)) modelFn {
		return func(ex *Exec, fn *ssa.Function, args []Value) (Value, *PanicV) {
			name := ex.argString(args[0])
			s, ok := format(ex, args[1])
			if !ok {
				s = "<not concrete>"
			}
			ex.res.TV = append(ex.res.TV, name+"="+s)
			return nil, nil
		}
	}
	e.reg(rtPkg+".OutInt", out(func(ex *Exec, v Value) (string, bool) {
		t := v.(*Term)
		if !t.isConst {
			return "", false
		}
		return fmt.Sprint(t.Int()), true
	}))
	e.reg(rtPkg+".OutBool", out(func(ex *Exec, v Value) (string, bool) {
		t := v.(*Term)
		if !t.isConst {
			return "", false
		}
		return fmt.Sprint(t.cv == 1), true
	}))
	e.reg(rtPkg+".OutBytes", out(func(ex *Exec, v Value) (string, bool) {
		b, ok := ex.concreteBytes(ex.sliceRegion(v.(SliceV)))
		return hex.EncodeToString(b), ok
	}))
	e.reg(rtPkg+".OutString", out(func(ex *Exec, v Value) (string, bool) {
		b, ok := ex.concreteBytes(ex.stringRegion(v.(StringV)))
		return hex.EncodeToString(b), ok
	}))
}

func tvNames() []string {
	var ns []string
	for k := range tvPrograms {
		ns = append(ns, k)
	}
	sort.Strings(ns)
	return ns
}

// tvGolden returns the native observations (cached by the hash of the runtime package sources).
func tvGolden(repoDir, verifDir string) (map[string][]string, error) {
	rtDir := filepath.Join(verifDir, "rt", "verifrt")
	h := sha256.New()
	ents, _ := os.ReadDir(rtDir)
	for _, e := range ents {
		b, _ := os.ReadFile(filepath.Join(rtDir, e.Name()))
		h.Write(b)
	}
	key := hex.EncodeToString(h.Sum(nil))[:16]
	cache := filepath.Join(verifDir, ".tv_golden_"+key+".json")
	if b, err := os.ReadFile(cache); err == nil {
		m := map[string][]string{}
		if json.Unmarshal(b, &m) == nil && len(m) > 0 {
			return m, nil
		}
	}
	tmp, err := os.MkdirTemp("", "veriftv")
	if err != nil {
		return nil, err
	}
	defer os.RemoveAll(tmp)
	ov, err := buildOverlay(repoDir, verifDir, &PropCfg{})
	if err != nil {
		return nil, err
	}
	// the driver lives in an existing package directory (go test needs the directory to exist)
	ov[filepath.Join(repoDir, "common", "csrand", "zz_tv_test.go")] = []byte(`//go:build verif

package csrand

import (
	"fmt"
	"sort"
	"testing"

	"gitlab.com/yawning/obfs4.git/internal/verifrt"
)

func TestVerifTV(t *testing.T) {
	var names []string
	for k := range verifrt.TVFuncs {
		names = append(names, k)
	}
	sort.Strings(names)
	for _, n := range names {
		for _, l := range verifrt.TVRun(n) {
			fmt.Println("TV " + n + " " + l)
		}
	}
}
`)
	repl := map[string]string{}
	n := 0
	for virt, content := range ov {
		n++
		real := filepath.Join(tmp, fmt.Sprintf("f%d.go", n))
		if err := os.WriteFile(real, content, 0o644); err != nil {
			return nil, err
		}
		repl[virt] = real
	}
	ovb, _ := json.Marshal(map[string]interface{}{"Replace": repl})
	ovPath := filepath.Join(tmp, "overlay.json")
	_ = os.WriteFile(ovPath, ovb, 0o644)
	cmd := exec.Command("go", "test", "-tags", "verif", "-vet=off", "-v", "-count=1", "-overlay", ovPath, "-run", "^TestVerifTV$", "./common/csrand")
	cmd.Dir = repoDir
	cmd.Env = append(os.Environ(), "GOFLAGS=-mod=mod", "GOPROXY=off", "GOSUMDB=off", "GOTOOLCHAIN=local")
	outb, err := cmd.CombinedOutput()
	m := map[string][]string{}
	for _, l := range strings.Split(string(outb), "\n") {
		if strings.HasPrefix(l, "TV ") {
			f := strings.SplitN(l, " ", 3)
			if len(f) == 3 {
				m[f[1]] = append(m[f[1]], f[2])
			}
		}
	}
	if len(m) == 0 {
		tail := string(outb)
		if len(tail) > 600 {
			tail = tail[len(tail)-600:]
		}
		return nil, fmt.Errorf("native TV run produced no observations: %v %s", err, tail)
	}
	b, _ := json.Marshal(m)
	_ = os.WriteFile(cache, b, 0o644)
	return m, nil
}

// runTV executes the TV programs in the engine and compares with the native observations.
// Returns (#observations compared, mismatch descriptions).
func (e *Engine) runTV(golden map[string][]string) (int, []string) {
	n := 0
	var bad []string
	for _, name := range tvNames() {
		h := &HarnessCfg{Name: "tv_" + name, Pkg: rtPkg, Func: tvPrograms[name], NoEnd: true, Unwind: 100000, NoReplay: true}
		hr := e.runHarness(h, 1)
		if hr.Paths != 1 || hr.Ends["done"] != 1 {
			bad = append(bad, fmt.Sprintf("%s: engine run did not complete on a single path (%v %v)", name, hr.Ends, hr.EndMsgs))
			continue
		}
		want := golden[name]
		got := hr.TV
		if len(got) != len(want) {
			bad = append(bad, fmt.Sprintf("%s: %d observations, native has %d", name, len(got), len(want)))
		}
		for i := 0; i < len(got) && i < len(want); i++ {
			if got[i] == want[i] {
				n++
			} else {
				bad = append(bad, fmt.Sprintf("%s: engine %q native %q", name, got[i], want[i]))
			}
		}
	}
	return n, bad
}
