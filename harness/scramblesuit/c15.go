//go:build verif

package scramblesuit

import (
	"bytes"
	"crypto/aes"
	"crypto/cipher"
	"crypto/hmac"
	"crypto/sha256"
	"errors"
	"io"

	"golang.org/x/crypto/hkdf"

	"gitlab.com/yawning/obfs4.git/common/drbg"
	"gitlab.com/yawning/obfs4.git/common/probdist"

	"gitlab.com/yawning/obfs4.git/common/csrand"
	"gitlab.com/yawning/obfs4.git/common/uniformdh"
	"gitlab.com/yawning/obfs4.git/internal/verifrt"
)

func vClientHS() (*ssDHClientHandshake, *ssSharedSecret) {
	kB := new(ssSharedSecret)
	copy(kB[:], verifrt.Bytes("kB", sharedSecretLength))
	key, err := uniformdh.GenerateKey(csrand.Reader)
	verifrt.Assume(err == nil)
	hs := newDHClientHandshake(kB, key)
	_, err = hs.generateHandshake()
	verifrt.Assume(err == nil)
	return hs, kB
}

// refServerResponse builds Y | P_S | M_S | MAC(Y | P_S | M_S | E) as a conforming server does.
func refServerResponse(kB *ssSharedSecret, y, pad, epochHour []byte) []byte {
	mac := hmac.New(sha256.New, kB[:])
	mac.Write(y)
	mS := mac.Sum(nil)[:macLength]
	var resp []byte
	resp = append(resp, y...)
	resp = append(resp, pad...)
	resp = append(resp, mS...)
	mac.Reset()
	mac.Write(resp)
	mac.Write(epochHour)
	resp = append(resp, mac.Sum(nil)[:macLength]...)
	return resp
}

// VerifC15ParseSplit: lemma X1 – the honest server response delivered as a prefix of every
// length L, in a buffer of every capacity >= L with arbitrary stale bytes beyond L.
func VerifC15ParseSplit() {
	hs, kB := vClientHS()
	y := verifrt.Bytes("Y", uniformdh.Size)
	maxPad := verifrt.Param("max_pad")
	padLen := verifrt.Pick("padLen", 0, maxPad) // case split: offsets behind the padding become concrete
	pad := verifrt.Bytes("pad", padLen)
	resp := refServerResponse(kB, y, pad, hs.epochHour)
	full := len(resp)
	mark := resp[uniformdh.Size+padLen : uniformdh.Size+padLen+macLength]
	// the random padding does not contain the mark (a 2^-128 event, excluded)
	for i := 0; i < maxPad; i++ {
		if i < padLen {
			verifrt.Assume(!verifrt.Equal(resp[uniformdh.Size+i:uniformdh.Size+i+macLength], mark))
		}
	}

	// delivered prefix length: any value before the end of the mark (one symbolic class),
	// and a case split over every cut position from the end of the mark to the full response
	markEnd := uniformdh.Size + padLen + macLength
	var l int
	if verifrt.Bool("shorter_than_minimum") {
		l = verifrt.IntRange("L", 0, minHandshakeLength-1)
	} else {
		l = verifrt.Pick("L", minHandshakeLength, full)
	}
	_ = markEnd
	cp := verifrt.IntRange("cap", 0, full+64)
	verifrt.Assume(cp >= l)
	buf := verifrt.BytesCap("stale", cp, cp)[:l] // stale bytes beyond the received data
	copy(buf, resp[:l])

	n, seed, err := hs.parseServerHandshake(buf)
	if l < full {
		verifrt.Reach("incomplete response")
		if l >= full-macLength && l > uniformdh.Size+padLen+macLength {
			verifrt.Reach("cut inside MAC_S")
		}
		verifrt.Assert(errors.Is(err, errMarkNotFoundYet), "an incomplete honest response asks for more data")
		verifrt.Assert(seed == nil && n == 0, "no result for an incomplete response")
	} else {
		verifrt.Reach("complete response")
		verifrt.Assert(err == nil, "the complete honest response is accepted")
		verifrt.Assert(n == full, "consumed length is the full response")
		verifrt.Assert(len(seed) == sha256.Size, "seed is 32 bytes")
	}
	verifrt.Reach("end")
}

const vDir = "/state"
const vNow = 1700000000

// VerifC15Tickets: lemma X5 – a ticket is handed out at most once (also across a
// restart of the client), an expired or absent ticket yields nil (fallback to UniformDH).
func VerifC15Tickets() {
	verifrt.SetClock(vNow)
	store, err := loadTicketStore(vDir)
	verifrt.Assert(err == nil && store != nil, "an absent ticket file is an empty store")
	addr := verifrt.Addr{S: "192.0.2.9:443"}
	other := verifrt.Addr{S: "192.0.2.10:443"}
	t0, err := store.getTicket(addr)
	verifrt.Assert(t0 == nil && err == nil, "no ticket: fall back to UniformDH")
	raw := verifrt.Bytes("ticket", ticketKeyLength+ticketLength)
	store.storeTicket(addr, raw)
	store.storeTicket(other, verifrt.Bytes("ticket2", ticketKeyLength+ticketLength))
	age := []int64{0, ticketLifetime - 1, ticketLifetime, ticketLifetime + 5}[verifrt.Pick("age_class", 0, 3)]
	verifrt.SetClock(vNow + age)
	if verifrt.Bool("restart_before_use") {
		store, err = loadTicketStore(vDir)
		verifrt.Assert(err == nil, "the ticket file loads")
	}
	t1, err := store.getTicket(addr)
	verifrt.Assert(err == nil, "getTicket succeeds")
	if age < ticketLifetime {
		verifrt.Reach("valid ticket")
		verifrt.Assert(t1 != nil, "a valid ticket is returned")
		if t1 != nil {
			verifrt.Assert(verifrt.Equal(t1.key[:], raw[:ticketKeyLength]) && verifrt.Equal(t1.ticket[:], raw[ticketKeyLength:]), "exactly the stored key and ticket")
		}
	} else {
		verifrt.Reach("expired ticket")
		verifrt.Assert(t1 == nil, "an expired ticket is never used")
	}
	t2, _ := store.getTicket(addr)
	verifrt.Assert(t2 == nil, "a ticket is used for at most one handshake")
	// ... also after a restart of the client: the used ticket is gone from the file
	store2, err := loadTicketStore(vDir)
	verifrt.Assert(err == nil, "the ticket file loads after use")
	t3, _ := store2.getTicket(addr)
	verifrt.Assert(t3 == nil, "a used ticket is not presented again after a restart")
	if age < ticketLifetime {
		t4, _ := store2.getTicket(other)
		verifrt.Assert(t4 != nil, "tickets for other bridges are kept")
	}
	verifrt.Reach("end")
}

// VerifC15TicketCrash: lemma F4 (C18) – the ticket store operations killed at any
// file-system step: the client factory still starts (at worst tickets are forgotten).
func VerifC15TicketCrash() {
	verifrt.SetClock(vNow)
	store, err := loadTicketStore(vDir)
	verifrt.Assume(err == nil)
	addr := verifrt.Addr{S: "192.0.2.9:443"}
	store.storeTicket(addr, verifrt.Bytes("ticket", ticketKeyLength+ticketLength))
	n1 := verifrt.FSSteps()
	k := verifrt.Pick("crash_step", 0, 4)
	torn := verifrt.Bool("torn_write")
	verifrt.CrashAt(n1+k, torn)
	op := verifrt.Pick("operation", 0, 1)
	crashed := verifrt.RunUntilCrash(func() {
		if op == 0 {
			store.storeTicket(verifrt.Addr{S: "192.0.2.10:443"}, verifrt.Bytes("ticket2", ticketKeyLength+ticketLength))
		} else {
			_, _ = store.getTicket(addr)
		}
	})
	verifrt.CrashAt(-1, false)
	if crashed {
		verifrt.Reach("crashed")
	}
	cf, err := (&Transport{}).ClientFactory(vDir)
	verifrt.Assert(err == nil && cf != nil, "persisted client state never blocks start-up")
	verifrt.Reach("end")
}

// refServerPacket builds one ScrambleSuit packet as a conforming server sends it:
// HMAC-SHA256-128(E(hdr | payload | padding)) | E(hdr | payload | padding), hdr = BE16(total) | BE16(payload) | flags.
func refServerPacket(s cipher.Stream, macKey []byte, flags byte, payload []byte, padLen int) []byte {
	total := len(payload) + padLen
	pkt := []byte{byte(total >> 8), byte(total), byte(len(payload) >> 8), byte(len(payload)), flags}
	pkt = append(pkt, payload...)
	pkt = append(pkt, make([]byte, padLen)...)
	s.XORKeyStream(pkt, pkt)
	m := hmac.New(sha256.New, macKey)
	m.Write(pkt)
	return append(m.Sum(nil)[:macLength], pkt...)
}

// VerifC15Packets: lemma X3 – an honest packet stream from the server, under every
// segmentation class (cuts inside MAC, header, body and exactly at packet ends), yields exactly
// the payload bytes in order, and nothing stays undelivered when Read would block.
func VerifC15Packets() {
	seed := verifrt.Bytes("seed", 32)
	cc := verifrt.NewConn("c", nil)
	c := &ssConn{Conn: cc, lenDist: probdist.New(vDrbgSeed(), minLenDistLength, maxLenDistLength, true),
		receiveBuffer: bytes.NewBuffer(nil), receiveDecodedBuffer: bytes.NewBuffer(nil)}
	verifrt.Assert(c.initCrypto(seed) == nil, "crypto initialised")
	// the server's sending state = the client's receiving state (X2): HKDF-expand(seed)[0:144],
	// rx key 40:72, IV prefix 72:80 | 00..01, MAC key 112:144
	okm := make([]byte, kdfSecretLength)
	_, _ = io.ReadFull(hkdf.Expand(sha256.New, seed, nil), okm)
	blk, _ := aes.NewCipher(okm[40:72])
	iv := append(append([]byte{}, okm[72:80]...), 0, 0, 0, 0, 0, 0, 0, 1)
	stream := cipher.NewCTR(blk, iv)
	var wire, want []byte
	var ends []int
	np := verifrt.Pick("packets", 1, 2)
	for k := 0; k < np; k++ {
		pl := []int{3, 0, 1}[verifrt.Pick("payload_len_class", 0, 2)]
		pad := []int{0, 2}[verifrt.Pick("pad_len_class", 0, 1)]
		payload := verifrt.Bytes("payload", pl)
		wire = append(wire, refServerPacket(stream, okm[112:144], pktPayload, payload, pad)...)
		want = append(want, payload...)
		ends = append(ends, len(wire))
	}
	cc.In = wire
	cc.MaxChunks = 1
	cand := []int{0, 1, macLength - 1, macLength, macLength + 1, pktOverhead - 1, pktOverhead, pktOverhead + 1}
	for _, e := range ends {
		cand = append(cand, e-1, e, e+1, e+macLength, e+pktOverhead)
	}
	if cut := cand[verifrt.Pick("cut", 0, len(cand)-1)]; cut > 0 && cut < len(wire) {
		cc.Cuts = []int{cut}
	}
	var got []byte
	verifrt.OnBlocked(func() {
		verifrt.Reach("drained")
		verifrt.Assert(cc.Unread() == 0 && verifrt.Equal(got, want), "Read blocks only when every payload byte that arrived has been delivered")
	})
	verifrt.Spawn(func() {
		buf := make([]byte, 16)
		for i := 0; i < 6; i++ {
			n, err := c.Read(buf)
			verifrt.Assert(err == nil, "no error on an intact stream")
			got = append(got, buf[:n]...)
			verifrt.Assert(len(got) <= len(want) && verifrt.Equal(got, want[:len(got)]), "delivered bytes are a prefix of the payload bytes, in order")
		}
	})
	verifrt.Reach("end")
}

func vDrbgSeed() *drbg.Seed {
	s, err := drbg.SeedFromBytes(verifrt.Bytes("lenseed", drbg.SeedLength))
	verifrt.Assume(err == nil)
	return s
}

// VerifC15PacketTamper: lemma X3 (second half) – one modified byte in a packet: the client
// reports ErrInvalidPacket and delivers none of that packet's bytes (ideal HMAC); bytes of
// earlier packets only.
func VerifC15PacketTamper() {
	verifrt.Ideal()
	seed := verifrt.Bytes("seed", 32)
	cc := verifrt.NewConn("c", nil)
	c := &ssConn{Conn: cc, lenDist: probdist.New(vDrbgSeed(), minLenDistLength, maxLenDistLength, true),
		receiveBuffer: bytes.NewBuffer(nil), receiveDecodedBuffer: bytes.NewBuffer(nil)}
	verifrt.Assume(c.initCrypto(seed) == nil)
	okm := make([]byte, kdfSecretLength)
	_, _ = io.ReadFull(hkdf.Expand(sha256.New, seed, nil), okm)
	blk, _ := aes.NewCipher(okm[40:72])
	iv := append(append([]byte{}, okm[72:80]...), 0, 0, 0, 0, 0, 0, 0, 1)
	stream := cipher.NewCTR(blk, iv)
	p1 := verifrt.Bytes("payload1", 2)
	p2 := verifrt.Bytes("payload2", 3)
	pk1 := refServerPacket(stream, okm[112:144], pktPayload, p1, 1)
	pk2 := refServerPacket(stream, okm[112:144], pktPayload, p2, 0)
	wire := append(append([]byte{}, pk1...), pk2...)
	which := verifrt.Pick("tampered_packet", 0, 1)
	start, plen := 0, len(pk1)
	if which == 1 {
		start, plen = len(pk1), len(pk2)
	}
	off := verifrt.Pick("offset", 0, 63) % plen
	mask := verifrt.Byte("mask")
	verifrt.Assume(mask != 0)
	verifrt.Witness(off - macLength)
	wire[start+off] ^= mask
	cc.In = wire
	cc.MaxChunks = 1
	cc.EOFAtEnd = true
	lengthsIntact := off < macLength || off >= macLength+4
	var got []byte
	var lastErr error
	buf := make([]byte, 16)
	for i := 0; i < 4 && lastErr == nil; i++ {
		n, err := c.Read(buf)
		got = append(got, buf[:n]...)
		lastErr = err
	}
	var before []byte
	if which == 1 {
		before = p1
	}
	verifrt.Assert(len(got) <= len(before) && verifrt.Equal(got, before[:len(got)]), "no byte of the modified packet (or of anything behind it) is delivered")
	verifrt.Assert(lastErr != nil, "the modified stream ends in an error")
	if lengthsIntact {
		verifrt.Assert(errors.Is(lastErr, ErrInvalidPacket), "a modified MAC / flags / body byte is reported as ErrInvalidPacket")
	}
	verifrt.Reach("end")
}

// VerifC15HostileServer: lemma X3 (third part, shared with C10) – the server holds the session
// keys, so it can authenticate *any* packet: arbitrary length fields and flags under a valid
// MAC must be handled without a crash; a payload length beyond the packet is refused, and a
// well-formed payload packet delivers exactly its payload prefix.
func VerifC15HostileServer() {
	seed := verifrt.Bytes("seed", 32)
	cc := verifrt.NewConn("c", nil)
	c := &ssConn{Conn: cc, lenDist: probdist.New(vDrbgSeed(), minLenDistLength, maxLenDistLength, true),
		receiveBuffer: bytes.NewBuffer(nil), receiveDecodedBuffer: bytes.NewBuffer(nil)}
	verifrt.Assume(c.initCrypto(seed) == nil)
	okm := make([]byte, kdfSecretLength)
	_, _ = io.ReadFull(hkdf.Expand(sha256.New, seed, nil), okm)
	blk, _ := aes.NewCipher(okm[40:72])
	iv := append(append([]byte{}, okm[72:80]...), 0, 0, 0, 0, 0, 0, 0, 1)
	stream := cipher.NewCTR(blk, iv)
	// the announced total length and the bytes that actually follow are independent
	total := int(verifrt.Uint16("total_len"))
	plen := int(verifrt.Uint16("payload_len"))
	flags := verifrt.Byte("flags")
	have := []int{0, 2, 5}[verifrt.Pick("body_bytes_class", 0, 2)]
	body := verifrt.Bytes("body", have)
	pkt := []byte{byte(total >> 8), byte(total), byte(plen >> 8), byte(plen), flags}
	pkt = append(pkt, body...)
	stream.XORKeyStream(pkt, pkt)
	m := hmac.New(sha256.New, okm[112:144])
	covered := len(pkt) // the MAC covers header + total_len bytes (bytes behind them belong to the next packet)
	if total < have {
		covered = pktHdrLength + total
	}
	m.Write(pkt[:covered])
	cc.In = append(m.Sum(nil)[:macLength], pkt...)
	cc.MaxChunks = 1
	cc.EOFAtEnd = true
	buf := make([]byte, 16)
	n, err := c.Read(buf)
	if plen > total {
		verifrt.Reach("oversized payload length")
		verifrt.Assert(n == 0 && err != nil, "a payload length beyond the packet length is refused, nothing is delivered")
	} else if total <= have && flags == pktPayload && plen > 0 {
		verifrt.Reach("well-formed")
		verifrt.Assert(err == nil && n == plen && verifrt.Equal(buf[:n], body[:plen]), "a well-formed payload packet delivers exactly its payload")
	} else {
		verifrt.Assert(n == 0, "nothing is delivered from an incomplete, empty or non-payload packet")
	}
	verifrt.Reach("end")
}
