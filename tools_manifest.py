#!/usr/bin/env python3
"""Regenerates MANIFEST.json from the table below (kept in one place so it stays valid)."""
import json, os
HERE = os.path.dirname(os.path.abspath(__file__))
ALL = ["C%02d" % i for i in range(1, 21)]
CHECKS = json.load(open(os.path.join(HERE, "manifest_checks.json")))
claimed = {c["property_id"] for c in CHECKS["checks"]}
checks = []
for c in CHECKS["checks"]:
    pid = c["property_id"]
    checks.append({
        "property_id": pid,
        "quick_cmd": "./bin/check %s quick" % pid,
        "thorough_cmd": "./bin/check %s thorough" % pid,
        "evidence_file": "/verif/evidence/%s.json" % pid,
        "replay_cmd_template": "./bin/gosmt replay {path}",
        "engine": "gosmt",
        "level_claimed": {"category": "model_checking", "text": c["text"], "design_ref": c.get("design_ref", "DESIGN.md section 4 (" + pid + ")")},
        "level_note": c["note"],
        "technique": c.get("technique", "symbolic execution of go/ssa of the real functions into SMT-LIB (QF_AUFBV), assertions decided by z3/cvc5 within stated bounds, counterexamples replayed natively"),
    })
na = [{"property_id": p, "reason": CHECKS["not_applicable"].get(p, "check not built yet in this session (work in progress); no claim is made")} for p in ALL if p not in claimed]
m = {
    "version": 1,
    "setup_cmd": "cd /verif/engine && GOFLAGS=-mod=vendor GOPROXY=off GOTOOLCHAIN=local go build -o ../bin/gosmt . && cd /verif && ./bin/gosmt selfcheck",
    "hooks": {"guard": "verif", "enable": "harness files (//go:build verif) are injected by go/packages Overlay and `go test -overlay`; nothing is written to /repo", "baseline_off_cmd": "cd /repo && go test -vet=off -count=1 ./...", "source_commits": [], "add_only": True},
    "engines": [{"name": "gosmt", "path": "/verif/engine", "serves_properties": sorted(claimed), "kind_free_text": "own go/ssa symbolic executor emitting SMT-LIB2; z3 4.8.12 / z3 5.1.0 / cvc5 1.0 portfolio; native replay via go test -overlay"}],
    "checks": checks,
    "notes": CHECKS.get("notes", ""),
    "not_applicable": na,
}
json.dump(m, open(os.path.join(HERE, "MANIFEST.json"), "w"), indent=1)
print("claimed:", sorted(claimed), "not_applicable:", [x["property_id"] for x in na])
