//go:build verif

package obfs3

import (
	"bytes"
	"crypto/aes"
	"crypto/cipher"
	"crypto/hmac"
	"crypto/sha256"

	"gitlab.com/yawning/obfs4.git/common/csrand"
	"gitlab.com/yawning/obfs4.git/common/uniformdh"
	"gitlab.com/yawning/obfs4.git/internal/verifrt"
)

func refHMAC(key []byte, label string) []byte {
	h := hmac.New(sha256.New, key)
	h.Write([]byte(label))
	return h.Sum(nil)
}

func refCTR(secret []byte) cipher.Stream {
	blk, _ := aes.NewCipher(secret[:keyLen])
	return cipher.NewCTR(blk, secret[keyLen:])
}

// padding of class k: small classes have arbitrary content (assumed not to contain the
// magic), the maximal class is all-zero bytes (a MAC never equals a constant string).
func vPad(name string, class int) []byte {
	switch class {
	case 0:
		return nil
	case 1:
		return verifrt.Bytes(name, 1)
	case 2:
		return verifrt.Bytes(name, 3)
	default:
		return make([]byte, maxPadding/2)
	}
}

// VerifC13Obfs3: lemmas U3/U4/U6 – the real endpoint in either role against a reference
// obfs3 peer: handshake, magic scan for every padding class and segmentation (magic
// straddling reads, data coalesced behind it), then data both ways.
func VerifC13Obfs3() {
	verifrt.Ideal()
	initiator := verifrt.Bool("real_side_is_initiator")
	peerKey, err := uniformdh.GenerateKey(csrand.Reader)
	verifrt.Assume(err == nil)
	peerPub, err := peerKey.PublicKey.Bytes()
	verifrt.Assume(err == nil)
	pad1 := vPad("peer_pad1", verifrt.Pick("pad1_class", 0, verifrt.Param("pad_classes")-1))
	verifrt.OnIntn(func(n int) int {
		return []int{0, 1, n - 1}[verifrt.Pick("my_padlen_class", 0, 2)]
	})
	conn := verifrt.NewConn("c", append(append([]byte{}, peerPub...), pad1...))
	conn.MaxChunks = 1
	var c *obfs3Conn
	if initiator {
		c, err = newObfs3ClientConn(conn)
	} else {
		c, err = newObfs3ServerConn(conn)
	}
	verifrt.Assert(err == nil, "handshake completes")
	// U3: sent PUB | pad, pad <= 4097
	out := conn.Out
	verifrt.Assert(len(out) >= uniformdh.Size && len(out)-uniformdh.Size <= maxPadding/2, "sends the 192-byte public key and at most 4097 bytes of padding")
	verifrt.Assert(len(conn.Deadlines) == 2 && !conn.Deadlines[0].T.IsZero() && conn.Deadlines[1].T.IsZero(), "deadline armed and cleared")
	var mine uniformdh.PublicKey
	verifrt.Assume(mine.SetBytes(out[:uniformdh.Size]) == nil)
	secret, err := uniformdh.Handshake(peerKey, &mine)
	verifrt.Assume(err == nil)
	initSecret, initMagic := refHMAC(secret, initiatorKdfString), refHMAC(secret, initiatorMagicString)
	respSecret, respMagic := refHMAC(secret, responderKdfString), refHMAC(secret, responderMagicString)
	mySecret, myMagic, peerSecret, peerMagic := initSecret, initMagic, respSecret, respMagic
	if !initiator {
		mySecret, myMagic, peerSecret, peerMagic = respSecret, respMagic, initSecret, initMagic
	}

	// peer's first message: pad2 | magic | E(data)
	pad2 := vPad("peer_pad2", verifrt.Pick("pad2_class", 0, verifrt.Param("pad_classes")-1))
	data := verifrt.Bytes("peer_data", 3)
	enc := append([]byte{}, data...)
	refCTR(peerSecret).XORKeyStream(enc, enc)
	var msg []byte
	msg = append(msg, pad2...)
	msg = append(msg, peerMagic...)
	msg = append(msg, enc...)
	// arbitrary small pads do not contain the magic
	scan := append(append([]byte{}, pad1...), msg...)
	mpos := len(pad1) + len(pad2)
	if mpos <= 8 {
		for i := 0; i < mpos; i++ {
			verifrt.Assume(!verifrt.Equal(scan[i:i+len(peerMagic)], peerMagic))
		}
	}
	base := len(conn.In)
	conn.In = append(conn.In, msg...)
	m0 := base + len(pad2)
	cuts := []int{0, m0, m0 + 1, m0 + 31, m0 + 32, m0 + 33, base + len(msg) - 1}
	if cut := cuts[verifrt.Pick("cut", 0, len(cuts)-1)]; cut > conn.Rpos && cut < len(conn.In) {
		conn.Cuts = []int{cut}
	}
	var got []byte
	verifrt.OnBlocked(func() {
		verifrt.Assert(false, "Read blocks although everything the peer wrote has arrived")
	})
	buf := make([]byte, 8)
	for i := 0; i < 4 && len(got) < len(data); i++ {
		n, err := c.Read(buf)
		verifrt.Assert(err == nil, "Read succeeds")
		got = append(got, buf[:n]...)
	}
	verifrt.Assert(verifrt.Equal(got, data), "bytes behind the magic are delivered first and in order, exactly as written")

	// real -> peer: pad | magic | E(msg)
	mymsg := verifrt.Bytes("my_data", 3)
	before := len(conn.Out)
	_, err = c.Write(mymsg)
	verifrt.Assert(err == nil, "write ok")
	tail := conn.Out[before:]
	padLen := len(tail) - len(myMagic) - len(mymsg)
	verifrt.Assert(padLen >= 0 && padLen <= maxPadding/2, "second padding <= 4097")
	verifrt.Assert(verifrt.Equal(tail[padLen:padLen+len(myMagic)], myMagic), "then the role's magic = HMAC(secret, label)")
	dec := append([]byte{}, tail[padLen+len(myMagic):]...)
	refCTR(mySecret).XORKeyStream(dec, dec)
	verifrt.Assert(verifrt.Equal(dec, mymsg), "then the data under the role's key/IV = HMAC(secret, label) split 16/16")
	verifrt.Reach("end")
}

// VerifC13MagicBounds: lemmas U4/U5 – the magic at the largest allowed offset (8194) is
// accepted, one byte later it is rejected, and 8194+32 bytes without a magic are rejected.
func VerifC13MagicBounds() {
	verifrt.Ideal()
	magic := refHMAC(verifrt.Bytes("secret", 32), "x")
	off := []int{maxPadding, maxPadding + 1, maxPadding - 1}[verifrt.Pick("magic_offset_class", 0, 2)]
	withMagic := verifrt.Bool("magic_present")
	var in []byte
	in = append(in, make([]byte, off)...)
	if withMagic {
		in = append(in, magic...)
	} else {
		in = append(in, make([]byte, 64)...)
	}
	conn := verifrt.NewConn("c", in)
	conn.MaxChunks = 1
	conn.EOFAtEnd = true
	c := &obfs3Conn{Conn: conn, rxMagic: magic, rxBuf: new(bytes.Buffer)}
	err := c.findPeerMagic()
	if withMagic && off <= maxPadding {
		verifrt.Assert(err == nil, "a magic behind at most 8194 bytes of padding is found")
		verifrt.Assert(c.rxBuf.Len() == 0, "consumed exactly through the magic")
	} else {
		verifrt.Assert(err != nil, "too much padding / no magic is rejected")
	}
	verifrt.Reach("end")
}
