//go:build verif

package verifrt

import (
	"sync"
	"errors"
	"io"
	"net"
	"time"
)

// ErrFault is the error a scripted connection returns at its fault point.
var ErrFault = errors.New("verifrt: injected network fault")

// ErrDeadline is returned by a read once the armed read deadline has "fired".
var ErrDeadline = errors.New("verifrt: i/o timeout (deadline fired)")

type DeadlineCall struct {
	Kind string // "all", "read", "write"
	T    time.Time
	Op   int // logical time stamp
}

type Addr struct{ S string }

func (a Addr) Network() string { return "tcp" }
func (a Addr) String() string  { return a.S }

// Conn is a scripted net.Conn. Inbound bytes are delivered in chunks whose sizes are
// fresh nondeterministic values (=> all segmentations); an error can be injected at a
// chosen Read/Write call; every effect is recorded with a logical time stamp.
type Conn struct {
	Name string
	In   []byte // scripted inbound stream
	Rpos int

	EOFAtEnd     bool // true: EOF after the script; false: the reader blocks
	FailRead     int  // index of the Read call that fails (-1: never)
	FailWrite    int  // index of the Write call that fails (-1: never)
	FailDeadline int  // index of the Set*Deadline call that fails (-1: never)
	DataWithErr  bool
	Cuts         []int // stream offsets at which a segment ends (if set, replaces the nondeterministic chunking)
	MaxChunks    int // >0: the MaxChunks-th read delivers everything still available (bounds the number of chunks)

	Out        []byte
	WriteSizes []int
	WriteOps   []int
	NReads     int
	NWrites    int
	NDeadlines int
	Deadlines  []DeadlineCall
	Closed     bool
	CloseOp    int
	NCloses    int
	Ops        int
	ReadOps    []int
	Remote     string
	DeadlineFired int
	// ReadAfterClose counts reads attempted after Close.
	ReadAfterClose int

	mu  sync.Mutex
	cch chan struct{}
}

func NewConn(name string, in []byte) *Conn {
	return &Conn{Name: name, In: in, FailRead: -1, FailWrite: -1, FailDeadline: -1, Remote: "192.0.2.1:443"}
}

func (c *Conn) Read(b []byte) (int, error) {
	Yield("read")
	c.Ops++
	idx := c.NReads
	c.NReads++
	c.ReadOps = append(c.ReadOps, c.Ops)
	if c.Closed {
		c.ReadAfterClose++
		return 0, net.ErrClosed
	}
	if idx == c.FailRead {
		return 0, ErrFault
	}
	if len(b) == 0 {
		return 0, nil
	}
	avail := len(c.In) - c.Rpos
	if avail == 0 {
		if c.EOFAtEnd {
			return 0, io.EOF
		}
		if t, ok := c.LastDeadline(); ok && !t.IsZero() {
			// a read deadline is armed and the peer stays silent: virtual time passes, it fires
			c.DeadlineFired++
			return 0, ErrDeadline
		}
		if Symbolic() {
			BlockUntil(func() bool { return c.Closed }, "read on "+c.Name+" with no more scripted data")
			// (only reached under the cooperative scheduler, after the connection was closed)
			return 0, net.ErrClosed
		}
		// native replay: block like a real idle connection until Close
		<-c.closedCh()
		return 0, net.ErrClosed
	}
	max := len(b)
	if avail < max {
		max = avail
	}
	n := max
	if len(c.Cuts) > 0 {
		// deliver up to the next cut position (harness-chosen segment boundaries)
		for _, cut := range c.Cuts {
			if cut > c.Rpos && cut-c.Rpos < n {
				n = cut - c.Rpos
			}
		}
	} else if c.MaxChunks == 0 || idx < c.MaxChunks-1 {
		n = IntRange("chunk_"+c.Name, 1, max)
	}
	copy(b, c.In[c.Rpos:c.Rpos+n])
	c.Rpos += n
	return n, nil
}

func (c *Conn) Write(b []byte) (int, error) {
	Yield("write")
	c.Ops++
	idx := c.NWrites
	c.NWrites++
	if c.Closed {
		return 0, net.ErrClosed
	}
	if idx == c.FailWrite {
		return 0, ErrFault
	}
	c.Out = append(c.Out, b...)
	c.WriteSizes = append(c.WriteSizes, len(b))
	c.WriteOps = append(c.WriteOps, c.Ops)
	return len(b), nil
}

func (c *Conn) Close() error {
	Yield("close")
	c.Ops++
	c.NCloses++
	if c.Closed {
		return net.ErrClosed
	}
	c.Closed = true
	c.CloseOp = c.Ops
	if !Symbolic() {
		close(c.closedCh())
	}
	return nil
}

func (c *Conn) closedCh() chan struct{} {
	c.mu.Lock()
	defer c.mu.Unlock()
	if c.cch == nil {
		c.cch = make(chan struct{})
	}
	return c.cch
}

func (c *Conn) LocalAddr() net.Addr  { return Addr{"127.0.0.1:1"} }
func (c *Conn) RemoteAddr() net.Addr { return Addr{c.Remote} }

func (c *Conn) setDeadline(kind string, t time.Time) error {
	c.Ops++
	idx := c.NDeadlines
	c.NDeadlines++
	if idx == c.FailDeadline {
		return ErrFault
	}
	c.Deadlines = append(c.Deadlines, DeadlineCall{kind, t, c.Ops})
	return nil
}

func (c *Conn) SetDeadline(t time.Time) error      { return c.setDeadline("all", t) }
func (c *Conn) SetReadDeadline(t time.Time) error  { return c.setDeadline("read", t) }
func (c *Conn) SetWriteDeadline(t time.Time) error { return c.setDeadline("write", t) }

// Unread returns the scripted bytes not yet delivered.
func (c *Conn) Unread() int { return len(c.In) - c.Rpos }

// LastDeadline returns the most recent deadline set for reads ("all" or "read").
func (c *Conn) LastDeadline() (time.Time, bool) {
	for i := len(c.Deadlines) - 1; i >= 0; i-- {
		if c.Deadlines[i].Kind != "write" {
			return c.Deadlines[i].T, true
		}
	}
	return time.Time{}, false
}
