//go:build verif

package obfs4

import (
	"gitlab.com/yawning/obfs4.git/internal/verifrt"
	"gitlab.com/yawning/obfs4.git/transports/obfs4/framing"
)

// honestWire produces the wire bytes of nWrites honest Write calls and the frame lengths.
func honestWire(key []byte, maxClass int) (sent, wireBytes []byte, frames []int) {
	wire := verifrt.NewConn("wire", nil)
	tx := vEndpoint(wire, true, iatNone, key, key)
	burstTail := 0
	verifrt.OnSample(func(min, max int) int {
		deltas := []int{0, headerLength + 1, headerLength + 9, headerLength}
		d := deltas[verifrt.Pick("pad_class", 0, verifrt.Param("max_pad_class"))]
		return (burstTail + d) % framing.MaximumSegmentLength
	})
	for w := 0; w < verifrt.Param("writes"); w++ {
		sizes := []int{1, 2, 0, maxPacketPayloadLength + 1}
		n := sizes[verifrt.Pick("write_size_class", 0, maxClass)]
		burstTail = 0
		for k := n; k > 0; k -= maxPacketPayloadLength {
			if k <= maxPacketPayloadLength {
				burstTail = (k + headerLength) % framing.MaximumSegmentLength
			}
		}
		p := verifrt.Bytes("payload", n)
		before := len(wire.Out)
		_, err := tx.Write(p)
		verifrt.Assume(err == nil)
		frames = append(frames, frameLens(p, wire.Out[before:])...)
		sent = append(sent, p...)
	}
	return sent, wire.Out, frames
}

// pickOffset: every offset of a small frame (case split, concrete per path); for large frames
// a symbolic offset (one solver query covers all positions).
func pickOffset(name string, flen int) int {
	if flen <= 64 {
		return verifrt.Pick(name, 0, 63) % flen
	}
	return verifrt.IntRange(name, 0, flen-1)
}

// VerifC05Tamper: lemmas T2/T3 – an attacker edit of the ciphertext never makes the
// receiver deliver anything but a prefix of what was sent; damage to a frame body or tag is
// reported as an error.
func VerifC05Tamper() {
	verifrt.Ideal()     // the Poly1305 tag / XSalsa20 key stream are ideal: distinct inputs give distinct tags
	verifrt.IdealAEAD() // no valid box exists that the sender did not seal
	key := verifrt.Bytes("key", framing.KeyLength)
	sent, wireBytes, frames := honestWire(key, verifrt.Param("max_class"))
	nf := len(frames)
	verifrt.Assume(nf > 0)
	fi := verifrt.Pick("frame", 0, 3)
	verifrt.Assume(fi < nf)
	start := 0
	for i := 0; i < fi; i++ {
		start += frames[i]
	}
	flen := frames[fi]

	var tampered []byte
	bodyDamaged := false
	edit := verifrt.Pick("edit", 0, 5)
	switch edit {
	case 0: // flip bits of one byte at any position of the frame
		off := pickOffset("flip_offset", flen)
		delta := verifrt.Byte("flip_mask")
		verifrt.Assume(delta != 0)
		verifrt.Witness(off - 18) // position inside the sealed message
		tampered = append(tampered, wireBytes...)
		tampered[start+off] ^= delta
		bodyDamaged = off >= 2
	case 1: // truncate inside the frame, then EOF
		off := pickOffset("cut_offset", flen)
		tampered = append(tampered, wireBytes[:start+off]...)
	case 2: // delete the whole frame
		tampered = append(tampered, wireBytes[:start]...)
		tampered = append(tampered, wireBytes[start+flen:]...)
	case 3: // duplicate the frame
		tampered = append(tampered, wireBytes[:start+flen]...)
		tampered = append(tampered, wireBytes[start:]...)
	case 4: // swap with the next frame
		verifrt.Assume(fi+1 < nf)
		nlen := frames[fi+1]
		tampered = append(tampered, wireBytes[:start]...)
		tampered = append(tampered, wireBytes[start+flen:start+flen+nlen]...)
		tampered = append(tampered, wireBytes[start:start+flen]...)
		tampered = append(tampered, wireBytes[start+flen+nlen:]...)
	default: // insert attacker chosen bytes in front of the frame
		n := []int{1, 2, 3, 17, 18, 22, 40}[verifrt.Pick("insert_len_class", 0, 6)]
		tampered = append(tampered, wireBytes[:start]...)
		tampered = append(tampered, verifrt.Bytes("inserted", n)...)
		tampered = append(tampered, wireBytes[start:]...)
	}

	rxc := verifrt.NewConn("rx", tampered)
	rxc.MaxChunks = 1
	rxc.EOFAtEnd = true
	rx := vEndpoint(rxc, false, iatNone, key, key)
	var got []byte
	sawErr := false
	buf := make([]byte, 8192)
	for i := 0; i < 3 && !sawErr; i++ {
		n, err := rx.Read(buf)
		got = append(got, buf[:n]...)
		verifrt.Assert(len(got) <= len(sent), "never more bytes than were sent")
		verifrt.Assert(verifrt.EqualSk(got, sent[:len(got)]), "delivered bytes are a prefix of what the peer wrote")
		if err != nil {
			sawErr = true
		}
		if i == 0 && bodyDamaged {
			// The frame's length field is intact and the whole frame was available to this call,
			// so it ran into the damaged body. (Edits that garble a length field may leave the
			// decoder waiting for the bogus length; that is allowed, see DESIGN.md section 7.)
			verifrt.Assert(err != nil, "the Read call that runs into the damaged frame reports an error (together with at most the intact data before it)")
		}
	}
	verifrt.Assert(sawErr, "the damaged / cut stream ends in an error, not in silence")
	if bodyDamaged {
		verifrt.Reach("body damaged")
	}
	verifrt.Reach("end")
}
