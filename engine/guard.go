package main

// Lock-discipline monitor (verifrt.Guard(obj, mu)): from the call on, the struct obj is shared
// state protected by the mutex mu. On every explored path
//   - a field of reference type (map, pointer, slice, chan, func, interface) may only be
//     loaded or stored while mu is held - it leads to mutable state;
//   - any other field may be read without the lock only if it is never written after the
//     Guard call (immutable after construction), and may only be written with the lock held.
// Together with the sequential semantics of the critical sections this is the classical
// argument for linearizability of the guarded operations.

import (
	"fmt"
	"go/types"
	"strings"

	"golang.org/x/tools/go/ssa"
)

type guardInfo struct {
	obj           *Obj
	muKey         string
	typ           *types.Struct
	unlockedReads map[int]bool
	writes        map[int]bool
	reported      bool
	what          string
}

func (ex *Exec) guardAccess(p Ptr, write bool) {
	g := ex.guardI
	if g == nil || p.obj != g.obj || len(p.path) == 0 || p.path[0].kind != 0 {
		return
	}
	f := p.path[0].field
	if ex.ptrKey(Ptr{obj: p.obj, path: p.path[:1]}) == g.muKey {
		return
	}
	held := ex.held()[g.muKey]
	name := fmt.Sprintf("field %d", f)
	ref := false
	if g.typ != nil && f < g.typ.NumFields() {
		name = g.typ.Field(f).Name()
		switch g.typ.Field(f).Type().Underlying().(type) {
		case *types.Map, *types.Pointer, *types.Slice, *types.Chan, *types.Signature, *types.Interface:
			ref = true
		}
	}
	bad := ""
	switch {
	case held:
		if write {
			g.writes[f] = true
			if g.unlockedReads[f] {
				bad = "is written under the lock but was read without it"
			}
		}
	case write:
		bad = "is written without holding the mutex"
	case ref:
		bad = "(reference to mutable state) is read without holding the mutex"
	default:
		g.unlockedReads[f] = true
		if g.writes[f] {
			bad = "is read without the lock although it is written after construction"
		}
	}
	if bad != "" && !g.reported {
		g.reported = true
		v := &Violation{Harness: ex.h.Name, Kind: "assert", Label: "lock discipline: " + g.what + "." + name + " " + bad, Site: ex.frame.fn.String()}
		ex.fillModel(v, nil)
		ex.res.Violations = append(ex.res.Violations, v)
	}
}

func registerGuard(e *Engine) {
	e.reg(rtPkg+".Guard", func(ex *Exec, fn *ssa.Function, args []Value) (Value, *PanicV) {
		ov, ok1 := args[0].(IfaceV)
		mv, ok2 := args[1].(IfaceV)
		if !ok1 || !ok2 {
			ex.unsupported("Guard: arguments must be pointers passed as interfaces")
		}
		op, ok1 := ov.val.(Ptr)
		mp, ok2 := mv.val.(Ptr)
		if !ok1 || !ok2 || op.IsNil() || mp.IsNil() {
			ex.unsupported("Guard: arguments must be non-nil pointers")
		}
		g := &guardInfo{obj: op.obj, muKey: ex.ptrKey(mp), unlockedReads: map[int]bool{}, writes: map[int]bool{}, what: "guarded object"}
		if pt, ok := ov.typ.Underlying().(*types.Pointer); ok {
			if st, ok := pt.Elem().Underlying().(*types.Struct); ok {
				g.typ = st
			}
			if n, ok := pt.Elem().(*types.Named); ok {
				g.what = n.Obj().Name()
			}
		}
		ex.guardI = g
		return nil, nil
	})
}

// ---------- footprint monitor (verifrt.Role) ----------
//
// verifrt.Role(k), k > 0: from here on the code runs "as goroutine k". Every load and store of
// an object that existed before the first Role call is recorded per (object, first field);
// a location written in one role and read or written in another role is a conflict: the two
// roles may run concurrently (one reader and one writer goroutine on a connection), so they
// must touch disjoint mutable state. Objects of the verification support package (scripted
// connections, ghost counters) are not monitored; accesses while any mutex is held are
// synchronised and not recorded.

type fpKey struct {
	obj   *Obj
	field int
}

type fpInfo struct {
	baseObj  int
	role     int
	readers  map[fpKey]int // bit set of roles
	writers  map[fpKey]int
	reported bool
}

func (ex *Exec) fpAccess(p Ptr, write bool) {
	fp := ex.fpI
	if fp.role == 0 || p.obj.id > fp.baseObj || fp.reported {
		return
	}
	if p.obj.typ != nil && strings.Contains(p.obj.typ.String(), "internal/verifrt.") {
		return
	}
	if p.obj.global != nil {
		return
	}
	if len(ex.held()) > 0 {
		return
	}
	k := fpKey{p.obj, -1}
	if len(p.path) > 0 && p.path[0].kind == 0 {
		k.field = p.path[0].field
	}
	bit := 1 << uint(fp.role)
	conflict := false
	if write {
		conflict = (fp.readers[k]|fp.writers[k])&^bit != 0
		fp.writers[k] |= bit
	} else {
		conflict = fp.writers[k]&^bit != 0
		fp.readers[k] |= bit
	}
	if conflict {
		fp.reported = true
		name := p.obj.name
		if p.obj.typ != nil {
			name += " (" + trimPkg(p.obj.typ.String()) + ")"
			if st, ok := p.obj.typ.Underlying().(*types.Struct); ok && k.field >= 0 && k.field < st.NumFields() {
				name += "." + st.Field(k.field).Name()
			}
		}
		v := &Violation{Harness: ex.h.Name, Kind: "assert", Label: "footprint: " + name + " is written by one of the concurrent roles and accessed by another (shared mutable state without synchronisation)", Site: ex.frame.fn.String()}
		ex.fillModel(v, nil)
		ex.res.Violations = append(ex.res.Violations, v)
	}
}

func registerFootprint(e *Engine) {
	e.reg(rtPkg+".Role", func(ex *Exec, fn *ssa.Function, args []Value) (Value, *PanicV) {
		k := argTerm(ex, args[0])
		if !k.isConst {
			ex.unsupported("Role: symbolic role")
		}
		if ex.fpI == nil {
			ex.fpI = &fpInfo{baseObj: ex.objID, readers: map[fpKey]int{}, writers: map[fpKey]int{}}
		}
		ex.fpI.role = int(k.cv)
		return nil, nil
	})
}
