//go:build verif

package scramblesuit

import (
	"crypto/hmac"
	"crypto/sha256"
	"errors"

	"gitlab.com/yawning/obfs4.git/common/csrand"
	"gitlab.com/yawning/obfs4.git/common/uniformdh"
	"gitlab.com/yawning/obfs4.git/internal/verifrt"
)

func vClientHS() (*ssDHClientHandshake, *ssSharedSecret) {
	kB := new(ssSharedSecret)
	copy(kB[:], verifrt.Bytes("kB", sharedSecretLength))
	key, err := uniformdh.GenerateKey(csrand.Reader)
	verifrt.Assume(err == nil)
	hs := newDHClientHandshake(kB, key)
	_, err = hs.generateHandshake()
	verifrt.Assume(err == nil)
	return hs, kB
}

// refServerResponse builds Y | P_S | M_S | MAC(Y | P_S | M_S | E) as a conforming server does.
func refServerResponse(kB *ssSharedSecret, y, pad, epochHour []byte) []byte {
	mac := hmac.New(sha256.New, kB[:])
	mac.Write(y)
	mS := mac.Sum(nil)[:macLength]
	var resp []byte
	resp = append(resp, y...)
	resp = append(resp, pad...)
	resp = append(resp, mS...)
	mac.Reset()
	mac.Write(resp)
	mac.Write(epochHour)
	resp = append(resp, mac.Sum(nil)[:macLength]...)
	return resp
}

// VerifC15ParseSplit: lemma X1 – the honest server response delivered as a prefix of every
// length L, in a buffer of every capacity >= L with arbitrary stale bytes beyond L.
func VerifC15ParseSplit() {
	hs, kB := vClientHS()
	y := verifrt.Bytes("Y", uniformdh.Size)
	maxPad := verifrt.Param("max_pad")
	padLen := verifrt.Pick("padLen", 0, maxPad) // case split: offsets behind the padding become concrete
	pad := verifrt.Bytes("pad", padLen)
	resp := refServerResponse(kB, y, pad, hs.epochHour)
	full := len(resp)
	mark := resp[uniformdh.Size+padLen : uniformdh.Size+padLen+macLength]
	// the random padding does not contain the mark (a 2^-128 event, excluded)
	for i := 0; i < maxPad; i++ {
		if i < padLen {
			verifrt.Assume(!verifrt.Equal(resp[uniformdh.Size+i:uniformdh.Size+i+macLength], mark))
		}
	}

	// delivered prefix length: any value before the end of the mark (one symbolic class),
	// and a case split over every cut position from the end of the mark to the full response
	markEnd := uniformdh.Size + padLen + macLength
	var l int
	if verifrt.Bool("shorter_than_minimum") {
		l = verifrt.IntRange("L", 0, minHandshakeLength-1)
	} else {
		l = verifrt.Pick("L", minHandshakeLength, full)
	}
	_ = markEnd
	cp := verifrt.IntRange("cap", 0, full+64)
	verifrt.Assume(cp >= l)
	buf := verifrt.BytesCap("stale", cp, cp)[:l] // stale bytes beyond the received data
	copy(buf, resp[:l])

	n, seed, err := hs.parseServerHandshake(buf)
	if l < full {
		verifrt.Reach("incomplete response")
		if l >= full-macLength && l > uniformdh.Size+padLen+macLength {
			verifrt.Reach("cut inside MAC_S")
		}
		verifrt.Assert(errors.Is(err, errMarkNotFoundYet), "an incomplete honest response asks for more data")
		verifrt.Assert(seed == nil && n == 0, "no result for an incomplete response")
	} else {
		verifrt.Reach("complete response")
		verifrt.Assert(err == nil, "the complete honest response is accepted")
		verifrt.Assert(n == full, "consumed length is the full response")
		verifrt.Assert(len(seed) == sha256.Size, "seed is 32 bytes")
	}
	verifrt.Reach("end")
}
