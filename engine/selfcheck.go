package main

import "fmt"

// selfcheck validates the term layer and the solver back ends on a few fixed queries.
func selfcheck() int {
	c := NewCtx()
	pool := NewPool()
	defer pool.Close()
	x := c.Fresh("x", BV(64))
	y := c.Fresh("y", BV(64))
	bad := 0
	chk := func(name string, t *Term, want Result) {
		script := c.Script([]*Term{t}, nil)
		for _, k := range []string{"z3", "z3new", "cvc5"} {
			r, _ := pool.runOne(k, script, 20000)
			if r != want {
				fmt.Printf("selfcheck %s on %s: got %v want %v\n", name, k, r, want)
				bad++
			}
		}
	}
	chk("add-comm", c.Not(c.Eq(c.Add(x, y), c.Add(y, x))), Unsat)
	chk("ult-sat", c.And(c.Ult(x, y), c.Ult(y, c64(c, 5))), Sat)
	chk("xor-cancel", c.Not(c.Eq(c.BXor(c.BXor(x, y), y), x)), Unsat)
	a := c.Fresh("a", ArrSort)
	chk("select", c.And(c.Eq(c.Select(a, x), c.BVConst(1, 8)), c.Eq(c.Select(a, y), c.BVConst(2, 8)), c.Eq(x, y)), Unsat)
	chk("urem", c.And(c.Ult(x, c64(c, 1448)), c.Not(c.Eq(c.URem(c.Add(c.Mul(c64(c, 1448), c64(c, 3)), x), c64(c, 1448)), x))), Unsat)
	if bad > 0 {
		fmt.Println("selfcheck FAILED")
		return 2
	}
	fmt.Println("selfcheck ok: term layer + z3 4.8.12, z3 5.1.0, cvc5 agree on 5 fixed queries")
	// translator validation (also warms the golden cache)
	verifDir := envOr("VERIF_DIR", "/verif")
	repoDir := envOr("VERIF_REPO", "/repo")
	golden, err := tvGolden(repoDir, verifDir)
	if err != nil {
		fmt.Println("selfcheck FAILED: translator validation (native):", err)
		return 2
	}
	pc := &PropCfg{Harnesses: []*HarnessCfg{{Name: "tv", Pkg: rtPkg, Func: "TVArith"}}}
	eng, err := loadEngine(repoDir, verifDir, pc)
	if err != nil {
		fmt.Println("selfcheck FAILED: load:", err)
		return 2
	}
	eng.tier = "quick"
	n, badTV := eng.runTV(golden)
	for _, b := range badTV {
		fmt.Println("translator validation mismatch:", b)
	}
	if len(badTV) > 0 {
		fmt.Println("selfcheck FAILED")
		return 2
	}
	fmt.Printf("selfcheck ok: translator validation, %d observations identical natively and in the engine\n", n)
	return 0
}
