package main

// Term layer: hash-consed SMT terms with constant folding.
// Sorts: Bool, BitVec(w), Real.

import (
	"fmt"
	"math/big"
	"sort"
	"strings"
)

type SortKind int

const (
	KBool SortKind = iota
	KBV
	KReal
	KArr // (Array (_ BitVec 64) (_ BitVec 8)) – only for base byte arrays
)

type Sort struct {
	K SortKind
	W int
}

var BoolSort = Sort{KBool, 0}
var RealSort = Sort{KReal, 0}
var ArrSort = Sort{KArr, 0}

func BV(w int) Sort { return Sort{KBV, w} }

func (s Sort) String() string {
	switch s.K {
	case KBool:
		return "Bool"
	case KBV:
		return fmt.Sprintf("(_ BitVec %d)", s.W)
	case KReal:
		return "Real"
	case KArr:
		return "(Array (_ BitVec 64) (_ BitVec 8))"
	}
	return "?"
}

type Term struct {
	id   int
	op   string
	sort Sort
	args []*Term
	// constants
	isConst bool
	cv      uint64   // BV const, w<=64 ; bool const: 0/1
	cbig    *big.Int // BV const w>64
	crat    *big.Rat // real const
	name    string   // variables / uf name
	p1, p2  int      // extract hi/lo, extend amount
}

type Ctx struct {
	tab    map[string]*Term
	nextID int
	nfresh map[string]int
	vars   []*Term // declared variables in creation order
	ufs    map[string]ufDecl
	ufList []string
}

type ufDecl struct {
	name string
	args []Sort
	ret  Sort
}

func NewCtx() *Ctx {
	return &Ctx{tab: map[string]*Term{}, nfresh: map[string]int{}, ufs: map[string]ufDecl{}}
}

func (c *Ctx) intern(t *Term) *Term {
	var sb strings.Builder
	sb.WriteString(t.op)
	sb.WriteByte('|')
	sb.WriteString(t.sort.String())
	sb.WriteByte('|')
	if t.isConst {
		if t.cbig != nil {
			sb.WriteString(t.cbig.String())
		} else if t.crat != nil {
			sb.WriteString(t.crat.String())
		} else {
			fmt.Fprintf(&sb, "%d", t.cv)
		}
	}
	sb.WriteString(t.name)
	fmt.Fprintf(&sb, "|%d|%d", t.p1, t.p2)
	for _, a := range t.args {
		fmt.Fprintf(&sb, ",%d", a.id)
	}
	k := sb.String()
	if x, ok := c.tab[k]; ok {
		return x
	}
	t.id = c.nextID
	c.nextID++
	c.tab[k] = t
	return t
}

// ---------- constants ----------

func mask(w int) uint64 {
	if w >= 64 {
		return ^uint64(0)
	}
	return (uint64(1) << uint(w)) - 1
}

func (c *Ctx) BVConst(v uint64, w int) *Term {
	if w > 64 {
		return c.BVBig(new(big.Int).SetUint64(v), w)
	}
	return c.intern(&Term{op: "bvc", sort: BV(w), isConst: true, cv: v & mask(w)})
}

func (c *Ctx) BVBig(v *big.Int, w int) *Term {
	m := new(big.Int).Lsh(big.NewInt(1), uint(w))
	x := new(big.Int).Mod(v, m)
	if w <= 64 {
		return c.BVConst(x.Uint64(), w)
	}
	return c.intern(&Term{op: "bvc", sort: BV(w), isConst: true, cbig: x})
}

func (c *Ctx) Bool(b bool) *Term {
	v := uint64(0)
	if b {
		v = 1
	}
	return c.intern(&Term{op: "boolc", sort: BoolSort, isConst: true, cv: v})
}

func (c *Ctx) RealConst(r *big.Rat) *Term {
	return c.intern(&Term{op: "realc", sort: RealSort, isConst: true, crat: new(big.Rat).Set(r)})
}

func (t *Term) IsTrue() bool  { return t.isConst && t.sort.K == KBool && t.cv == 1 }
func (t *Term) IsFalse() bool { return t.isConst && t.sort.K == KBool && t.cv == 0 }

// BigVal returns constant value as big.Int (unsigned).
func (t *Term) BigVal() *big.Int {
	if t.cbig != nil {
		return new(big.Int).Set(t.cbig)
	}
	return new(big.Int).SetUint64(t.cv)
}

// Uint returns the constant value for w<=64.
func (t *Term) Uint() uint64 { return t.cv }

func (t *Term) Int() int64 {
	w := t.sort.W
	if w >= 64 {
		return int64(t.cv)
	}
	v := t.cv
	if v&(uint64(1)<<uint(w-1)) != 0 {
		v |= ^mask(w)
	}
	return int64(v)
}

// ---------- variables ----------

func (c *Ctx) Var(name string, s Sort) *Term {
	t := c.intern(&Term{op: "var", sort: s, name: name})
	return t
}

// Fresh creates a fresh variable whose name is deterministic along a path.
func (c *Ctx) Fresh(prefix string, s Sort) *Term {
	prefix = sanitize(prefix)
	n := c.nfresh[prefix]
	c.nfresh[prefix] = n + 1
	name := fmt.Sprintf("%s!%d", prefix, n)
	t := c.Var(name, s)
	c.vars = append(c.vars, t)
	return t
}

func sanitize(s string) string {
	var sb strings.Builder
	for _, r := range s {
		if (r >= 'a' && r <= 'z') || (r >= 'A' && r <= 'Z') || (r >= '0' && r <= '9') || r == '_' || r == '.' || r == '-' {
			sb.WriteRune(r)
		} else {
			sb.WriteByte('_')
		}
	}
	if sb.Len() == 0 {
		return "v"
	}
	return sb.String()
}

// UF application.
func (c *Ctx) UF(name string, ret Sort, args ...*Term) *Term {
	name = sanitize(name)
	if _, ok := c.ufs[name]; !ok {
		d := ufDecl{name: name, ret: ret}
		for _, a := range args {
			d.args = append(d.args, a.sort)
		}
		c.ufs[name] = d
		c.ufList = append(c.ufList, name)
	}
	return c.intern(&Term{op: "uf", sort: ret, name: name, args: args})
}

// ---------- boolean ----------

func (c *Ctx) Not(a *Term) *Term {
	if a.isConst {
		return c.Bool(a.cv == 0)
	}
	if a.op == "not" {
		return a.args[0]
	}
	return c.intern(&Term{op: "not", sort: BoolSort, args: []*Term{a}})
}

func (c *Ctx) And(xs ...*Term) *Term {
	var out []*Term
	seen := map[int]bool{}
	for _, x := range xs {
		if x.IsTrue() {
			continue
		}
		if x.IsFalse() {
			return x
		}
		if x.op == "and" {
			for _, y := range x.args {
				if !seen[y.id] {
					seen[y.id] = true
					out = append(out, y)
				}
			}
			continue
		}
		if !seen[x.id] {
			seen[x.id] = true
			out = append(out, x)
		}
	}
	for _, x := range out {
		if x.op == "not" && seen[x.args[0].id] {
			return c.Bool(false)
		}
	}
	if len(out) == 0 {
		return c.Bool(true)
	}
	if len(out) == 1 {
		return out[0]
	}
	return c.intern(&Term{op: "and", sort: BoolSort, args: out})
}

func (c *Ctx) Or(xs ...*Term) *Term {
	var out []*Term
	seen := map[int]bool{}
	for _, x := range xs {
		if x.IsFalse() {
			continue
		}
		if x.IsTrue() {
			return x
		}
		if x.op == "or" {
			for _, y := range x.args {
				if !seen[y.id] {
					seen[y.id] = true
					out = append(out, y)
				}
			}
			continue
		}
		if !seen[x.id] {
			seen[x.id] = true
			out = append(out, x)
		}
	}
	for _, x := range out {
		if x.op == "not" && seen[x.args[0].id] {
			return c.Bool(true)
		}
	}
	if len(out) == 0 {
		return c.Bool(false)
	}
	if len(out) == 1 {
		return out[0]
	}
	return c.intern(&Term{op: "or", sort: BoolSort, args: out})
}

func (c *Ctx) Implies(a, b *Term) *Term { return c.Or(c.Not(a), b) }

func (c *Ctx) Ite(cond, a, b *Term) *Term {
	if cond.IsTrue() {
		return a
	}
	if cond.IsFalse() {
		return b
	}
	if a == b {
		return a
	}
	if a.sort.K == KBool {
		if a.IsTrue() && b.IsFalse() {
			return cond
		}
		if a.IsFalse() && b.IsTrue() {
			return c.Not(cond)
		}
		if a.IsTrue() {
			return c.Or(cond, b)
		}
		if a.IsFalse() {
			return c.And(c.Not(cond), b)
		}
		if b.IsTrue() {
			return c.Or(c.Not(cond), a)
		}
		if b.IsFalse() {
			return c.And(cond, a)
		}
	}
	// ite(c, x, ite(c, y, z)) => ite(c,x,z)
	if b.op == "ite" && b.args[0] == cond {
		b = b.args[2]
	}
	if a.op == "ite" && a.args[0] == cond {
		a = a.args[1]
	}
	if a == b {
		return a
	}
	return c.intern(&Term{op: "ite", sort: a.sort, args: []*Term{cond, a, b}})
}

func (c *Ctx) Eq(a, b *Term) *Term {
	if a.sort != b.sort {
		panic(fmt.Sprintf("Eq sort mismatch %v %v (%s, %s)", a.sort, b.sort, a.op, b.op))
	}
	if a == b {
		return c.Bool(true)
	}
	if a.isConst && b.isConst {
		return c.Bool(constEq(a, b))
	}
	if a.sort.K == KBool {
		if a.isConst {
			if a.cv == 1 {
				return b
			}
			return c.Not(b)
		}
		if b.isConst {
			if b.cv == 1 {
				return a
			}
			return c.Not(a)
		}
	}
	// eq(ite(c,k1,k2), k) with constants
	if b.isConst && a.op == "ite" && a.args[1].isConst && a.args[2].isConst {
		e1 := constEq(a.args[1], b)
		e2 := constEq(a.args[2], b)
		return c.Ite(a.args[0], c.Bool(e1), c.Bool(e2))
	}
	if a.isConst && b.op == "ite" && b.args[1].isConst && b.args[2].isConst {
		return c.Eq(b, a)
	}
	// zext(x) == const  => x == const' (if fits) else false
	if b.isConst && a.op == "zext" && a.sort.W <= 64 {
		iw := a.args[0].sort.W
		if b.cv&^mask(iw) != 0 {
			return c.Bool(false)
		}
		return c.Eq(a.args[0], c.BVConst(b.cv, iw))
	}
	if a.isConst && b.op == "zext" && b.sort.W <= 64 {
		return c.Eq(b, a)
	}
	if a.sort.K == KBV && (a.op == "concat" || b.op == "concat") {
		var k int
		if a.op == "concat" {
			k = a.args[1].sort.W
		} else {
			k = b.args[1].sort.W
		}
		ah, al, ok1 := c.splitAt(a, k)
		bh, bl, ok2 := c.splitAt(b, k)
		if ok1 && ok2 {
			return c.And(c.Eq(ah, bh), c.Eq(al, bl))
		}
	}
	if a.id > b.id {
		a, b = b, a
	}
	return c.intern(&Term{op: "=", sort: BoolSort, args: []*Term{a, b}})
}

func constEq(a, b *Term) bool {
	if a.cbig != nil || b.cbig != nil {
		return a.BigVal().Cmp(b.BigVal()) == 0
	}
	if a.crat != nil {
		return a.crat.Cmp(b.crat) == 0
	}
	return a.cv == b.cv
}

// ---------- bit-vectors ----------

func (c *Ctx) bvbin(op string, a, b *Term) *Term {
	if a.sort != b.sort {
		panic(fmt.Sprintf("bv op %s sort mismatch %v %v", op, a.sort, b.sort))
	}
	w := a.sort.W
	if a.isConst && b.isConst {
		if w <= 64 {
			if r, ok := fold64(op, a.cv, b.cv, w); ok {
				return c.BVConst(r, w)
			}
		} else {
			if r := foldBig(op, a.BigVal(), b.BigVal(), w); r != nil {
				return c.BVBig(r, w)
			}
		}
	}
	// byte-assembly normal form: (zext lo) | (Y << k)  ==>  concat(Y[w-k-1:0], lo[k-1:0])
	if op == "bvor" || op == "bvxor" || op == "bvadd" {
		for pass := 0; pass < 2; pass++ {
			x, y := a, b
			if pass == 1 {
				x, y = b, a
			}
			if y.op == "bvshl" && y.args[1].isConst && y.args[1].cbig == nil {
				k := int(y.args[1].cv)
				if k > 0 && k < w && lowWidth(x) <= k {
					return c.Concat(c.Extract(y.args[0], w-k-1, 0), c.Extract(x, k-1, 0))
				}
			}
		}
	}
	// bit-wise operators distribute over aligned concatenations
	if op == "bvand" || op == "bvor" || op == "bvxor" {
		var k int
		if a.op == "concat" {
			k = a.args[1].sort.W
		} else if b.op == "concat" {
			k = b.args[1].sort.W
		}
		if k > 0 {
			ah, al, ok1 := c.splitAt(a, k)
			bh, bl, ok2 := c.splitAt(b, k)
			if ok1 && ok2 {
				return c.Concat(c.bvbin(op, ah, bh), c.bvbin(op, al, bl))
			}
		}
	}
	// identities
	switch op {
	case "bvadd":
		if isZero(a) {
			return b
		}
		if isZero(b) {
			return a
		}
		// (x + k1) + k2
		if b.isConst && a.op == "bvadd" && a.args[1].isConst {
			return c.bvbin("bvadd", a.args[0], c.bvbin("bvadd", a.args[1], b))
		}
		if a.isConst && !b.isConst {
			a, b = b, a
		}
	case "bvsub":
		if isZero(b) {
			return a
		}
		if a == b {
			return c.zero(w)
		}
		if b.isConst {
			return c.bvbin("bvadd", a, c.Neg(b))
		}
		// (x + k) - x = k
		if a.op == "bvadd" && a.args[0] == b {
			return a.args[1]
		}
		// (x+k1) - (x+k2)
		if a.op == "bvadd" && b.op == "bvadd" && a.args[0] == b.args[0] {
			return c.bvbin("bvsub", a.args[1], b.args[1])
		}
		// x - (x + k) = -k
		if b.op == "bvadd" && b.args[0] == a {
			return c.Neg(b.args[1])
		}
	case "bvmul":
		if isZero(a) || isZero(b) {
			return c.zero(w)
		}
		if isOne(a) {
			return b
		}
		if isOne(b) {
			return a
		}
		if a.isConst && !b.isConst {
			a, b = b, a
		}
	case "bvand":
		if isZero(a) || isZero(b) {
			return c.zero(w)
		}
		if isAllOnes(a) {
			return b
		}
		if isAllOnes(b) {
			return a
		}
		if a == b {
			return a
		}
		// x & (2^m - 1)  ==>  zext(extract(x, m-1, 0))   (lets shifts/masks of byte assemblies fold)
		if b.isConst && w <= 64 && b.cv != 0 && b.cv&(b.cv+1) == 0 && !a.isConst {
			m := 0
			for v := b.cv; v != 0; v >>= 1 {
				m++
			}
			if m < w && (a.op == "bvlshr" || a.op == "bvor" || a.op == "bvand" || a.op == "bvxor" || a.op == "concat" || a.op == "bvshl" || a.op == "zext") {
				lowBits := c.Extract(a, m-1, 0)
				if lowBits.isConst || lowBits.op != "extract" {
					return c.ZExt(lowBits, w)
				}
			}
		}
		// zext(x) & mask where mask covers all of x's bits
		if b.isConst && w <= 64 && a.op == "zext" {
			iw := a.args[0].sort.W
			if b.cv&mask(iw) == mask(iw) {
				return a
			}
		}
	case "bvor":
		if isZero(a) {
			return b
		}
		if isZero(b) {
			return a
		}
		if a == b {
			return a
		}
		if isAllOnes(a) {
			return a
		}
		if isAllOnes(b) {
			return b
		}
	case "bvxor":
		if isZero(a) {
			return b
		}
		if isZero(b) {
			return a
		}
		if a == b {
			return c.zero(w)
		}
		// (p ^ q) ^ q = p
		if a.op == "bvxor" {
			if a.args[0] == b {
				return a.args[1]
			}
			if a.args[1] == b {
				return a.args[0]
			}
		}
		if b.op == "bvxor" {
			if b.args[0] == a {
				return b.args[1]
			}
			if b.args[1] == a {
				return b.args[0]
			}
		}
		// constants together: (p ^ k1) ^ k2
		if b.isConst && a.op == "bvxor" && a.args[1].isConst {
			return c.bvbin("bvxor", a.args[0], c.bvbin("bvxor", a.args[1], b))
		}
		if a.isConst && !b.isConst {
			a, b = b, a
		}
	case "bvshl", "bvlshr", "bvashr":
		if isZero(b) {
			return a
		}
		if isZero(a) {
			return a
		}
		if b.isConst && w <= 64 && b.cv >= uint64(w) && op != "bvashr" {
			return c.zero(w)
		}
		// (zext x) << 8k  etc are left alone
	case "bvudiv", "bvurem", "bvsdiv", "bvsrem":
		if op == "bvudiv" || op == "bvsdiv" {
			if isOne(b) {
				return a
			}
		}
	}
	return c.intern(&Term{op: op, sort: a.sort, args: []*Term{a, b}})
}

func (c *Ctx) zero(w int) *Term { return c.BVConst(0, w) }

// lowWidth returns k such that all bits at positions >= k are known to be zero.
func lowWidth(t *Term) int {
	switch {
	case t.isConst:
		return t.BigVal().BitLen()
	case t.op == "zext":
		return lowWidth(t.args[0])
	case t.op == "concat":
		h := lowWidth(t.args[0])
		if h == 0 {
			return lowWidth(t.args[1])
		}
		return t.args[1].sort.W + h
	}
	return t.sort.W
}

// splitAt views a term as concat(hi, lo) with lo of width k, when that is free.
func (c *Ctx) splitAt(t *Term, k int) (*Term, *Term, bool) {
	w := t.sort.W
	if k <= 0 || k >= w {
		return nil, nil, false
	}
	if t.isConst {
		return c.Extract(t, w-1, k), c.Extract(t, k-1, 0), true
	}
	if t.op == "concat" && t.args[1].sort.W == k {
		return t.args[0], t.args[1], true
	}
	if t.op == "zext" && t.args[0].sort.W <= k {
		return c.zero(w - k), c.ZExt(t.args[0], k), true
	}
	// any term can be viewed as the concatenation of two extracts
	return c.Extract(t, w-1, k), c.Extract(t, k-1, 0), true
}

func isZero(t *Term) bool {
	if !t.isConst {
		return false
	}
	if t.cbig != nil {
		return t.cbig.Sign() == 0
	}
	return t.cv == 0
}
func isOne(t *Term) bool {
	if !t.isConst {
		return false
	}
	if t.cbig != nil {
		return t.cbig.Cmp(big.NewInt(1)) == 0
	}
	return t.cv == 1
}
func isAllOnes(t *Term) bool {
	if !t.isConst || t.cbig != nil {
		return false
	}
	return t.cv == mask(t.sort.W)
}

func sext64(v uint64, w int) int64 {
	if w >= 64 {
		return int64(v)
	}
	if v&(uint64(1)<<uint(w-1)) != 0 {
		v |= ^mask(w)
	}
	return int64(v)
}

func fold64(op string, a, b uint64, w int) (uint64, bool) {
	m := mask(w)
	switch op {
	case "bvadd":
		return (a + b) & m, true
	case "bvsub":
		return (a - b) & m, true
	case "bvmul":
		return (a * b) & m, true
	case "bvand":
		return a & b, true
	case "bvor":
		return a | b, true
	case "bvxor":
		return a ^ b, true
	case "bvshl":
		if b >= uint64(w) {
			return 0, true
		}
		return (a << b) & m, true
	case "bvlshr":
		if b >= uint64(w) {
			return 0, true
		}
		return (a >> b) & m, true
	case "bvashr":
		sa := sext64(a, w)
		if b >= uint64(w) {
			b = uint64(w - 1)
		}
		return uint64(sa>>b) & m, true
	case "bvudiv":
		if b == 0 {
			return m, true
		}
		return (a / b) & m, true
	case "bvurem":
		if b == 0 {
			return a, true
		}
		return (a % b) & m, true
	case "bvsdiv":
		sa, sb := sext64(a, w), sext64(b, w)
		if sb == 0 {
			if sa >= 0 {
				return m, true
			}
			return 1, true
		}
		if sb == -1 {
			return uint64(-sa) & m, true
		}
		return uint64(sa/sb) & m, true
	case "bvsrem":
		sa, sb := sext64(a, w), sext64(b, w)
		if sb == 0 {
			return a, true
		}
		if sb == -1 {
			return 0, true
		}
		return uint64(sa%sb) & m, true
	}
	return 0, false
}

func foldBig(op string, a, b *big.Int, w int) *big.Int {
	r := new(big.Int)
	switch op {
	case "bvadd":
		return r.Add(a, b)
	case "bvsub":
		return r.Sub(a, b)
	case "bvmul":
		return r.Mul(a, b)
	case "bvand":
		return r.And(a, b)
	case "bvor":
		return r.Or(a, b)
	case "bvxor":
		return r.Xor(a, b)
	case "bvshl":
		if b.BitLen() > 32 || b.Uint64() >= uint64(w) {
			return r
		}
		return r.Lsh(a, uint(b.Uint64()))
	case "bvlshr":
		if b.BitLen() > 32 || b.Uint64() >= uint64(w) {
			return r
		}
		return r.Rsh(a, uint(b.Uint64()))
	case "bvudiv":
		if b.Sign() == 0 {
			return nil
		}
		return r.Div(a, b)
	case "bvurem":
		if b.Sign() == 0 {
			return a
		}
		return r.Mod(a, b)
	}
	return nil
}

func (c *Ctx) Add(a, b *Term) *Term  { return c.bvbin("bvadd", a, b) }
func (c *Ctx) Sub(a, b *Term) *Term  { return c.bvbin("bvsub", a, b) }
func (c *Ctx) Mul(a, b *Term) *Term  { return c.bvbin("bvmul", a, b) }
func (c *Ctx) BAnd(a, b *Term) *Term { return c.bvbin("bvand", a, b) }
func (c *Ctx) BOr(a, b *Term) *Term  { return c.bvbin("bvor", a, b) }
func (c *Ctx) BXor(a, b *Term) *Term { return c.bvbin("bvxor", a, b) }
func (c *Ctx) Shl(a, b *Term) *Term  { return c.bvbin("bvshl", a, b) }
func (c *Ctx) Lshr(a, b *Term) *Term { return c.bvbin("bvlshr", a, b) }
func (c *Ctx) Ashr(a, b *Term) *Term { return c.bvbin("bvashr", a, b) }
func (c *Ctx) UDiv(a, b *Term) *Term { return c.bvbin("bvudiv", a, b) }
func (c *Ctx) URem(a, b *Term) *Term { return c.bvbin("bvurem", a, b) }
func (c *Ctx) SDiv(a, b *Term) *Term { return c.bvbin("bvsdiv", a, b) }
func (c *Ctx) SRem(a, b *Term) *Term { return c.bvbin("bvsrem", a, b) }

func (c *Ctx) Neg(a *Term) *Term {
	return c.bvbin("bvsub", c.zero(a.sort.W), a)
}

func (c *Ctx) BNot(a *Term) *Term {
	w := a.sort.W
	if a.isConst && w <= 64 {
		return c.BVConst(^a.cv, w)
	}
	if a.isConst {
		all := new(big.Int).Sub(new(big.Int).Lsh(big.NewInt(1), uint(w)), big.NewInt(1))
		return c.BVBig(new(big.Int).Xor(a.BigVal(), all), w)
	}
	if a.op == "bvnot" {
		return a.args[0]
	}
	return c.intern(&Term{op: "bvnot", sort: a.sort, args: []*Term{a}})
}

func (c *Ctx) cmp(op string, a, b *Term) *Term {
	if a.sort != b.sort {
		panic(fmt.Sprintf("cmp %s sort mismatch %v %v", op, a.sort, b.sort))
	}
	w := a.sort.W
	if a.isConst && b.isConst {
		if w <= 64 {
			switch op {
			case "bvult":
				return c.Bool(a.cv < b.cv)
			case "bvule":
				return c.Bool(a.cv <= b.cv)
			case "bvslt":
				return c.Bool(sext64(a.cv, w) < sext64(b.cv, w))
			case "bvsle":
				return c.Bool(sext64(a.cv, w) <= sext64(b.cv, w))
			}
		} else if op == "bvult" || op == "bvule" {
			r := a.BigVal().Cmp(b.BigVal())
			if op == "bvult" {
				return c.Bool(r < 0)
			}
			return c.Bool(r <= 0)
		}
	}
	if a == b {
		return c.Bool(op == "bvule" || op == "bvsle")
	}
	if w <= 64 {
		// zext(x) cmp const simplifications
		if b.isConst && a.op == "zext" {
			iw := a.args[0].sort.W
			bv := b.cv
			sb := sext64(bv, w)
			switch op {
			case "bvult":
				if bv > mask(iw) {
					return c.Bool(true)
				}
			case "bvule":
				if bv >= mask(iw) {
					return c.Bool(true)
				}
			case "bvslt":
				if sb > int64(mask(iw)) {
					return c.Bool(true)
				}
				if sb <= 0 {
					return c.Bool(false)
				}
			case "bvsle":
				if sb >= int64(mask(iw)) {
					return c.Bool(true)
				}
				if sb < 0 {
					return c.Bool(false)
				}
			}
		}
		if a.isConst && b.op == "zext" {
			iw := b.args[0].sort.W
			av := a.cv
			sa := sext64(av, w)
			switch op {
			case "bvult":
				if av >= mask(iw) {
					return c.Bool(false)
				}
			case "bvule":
				if av == 0 {
					return c.Bool(true)
				}
				if av > mask(iw) {
					return c.Bool(false)
				}
			case "bvslt":
				if sa < 0 {
					return c.Bool(true)
				}
				if sa >= int64(mask(iw)) {
					return c.Bool(false)
				}
			case "bvsle":
				if sa <= 0 {
					return c.Bool(true)
				}
				if sa > int64(mask(iw)) {
					return c.Bool(false)
				}
			}
		}
		if op == "bvult" && b.isConst && b.cv == 0 {
			return c.Bool(false)
		}
		if op == "bvule" && a.isConst && a.cv == 0 {
			return c.Bool(true)
		}
	}
	return c.intern(&Term{op: op, sort: BoolSort, args: []*Term{a, b}})
}

func (c *Ctx) Ult(a, b *Term) *Term { return c.cmp("bvult", a, b) }
func (c *Ctx) Ule(a, b *Term) *Term { return c.cmp("bvule", a, b) }
func (c *Ctx) Slt(a, b *Term) *Term { return c.cmp("bvslt", a, b) }
func (c *Ctx) Sle(a, b *Term) *Term { return c.cmp("bvsle", a, b) }

func (c *Ctx) Extract(a *Term, hi, lo int) *Term {
	w := a.sort.W
	if lo == 0 && hi == w-1 {
		return a
	}
	nw := hi - lo + 1
	if a.isConst {
		if w <= 64 {
			return c.BVConst(a.cv>>uint(lo), nw)
		}
		return c.BVBig(new(big.Int).Rsh(a.BigVal(), uint(lo)), nw)
	}
	switch a.op {
	case "zext":
		iw := a.args[0].sort.W
		if hi < iw {
			return c.Extract(a.args[0], hi, lo)
		}
		if lo >= iw {
			return c.zero(nw)
		}
		if lo == 0 {
			return c.ZExt(a.args[0], nw)
		}
	case "sext":
		iw := a.args[0].sort.W
		if hi < iw {
			return c.Extract(a.args[0], hi, lo)
		}
	case "extract":
		return c.Extract(a.args[0], a.p2+hi, a.p2+lo)
	case "concat":
		lw := a.args[1].sort.W
		if hi < lw {
			return c.Extract(a.args[1], hi, lo)
		}
		if lo >= lw {
			return c.Extract(a.args[0], hi-lw, lo-lw)
		}
	case "bvand", "bvor", "bvxor":
		if nw <= 16 {
			return c.bvbin(a.op, c.Extract(a.args[0], hi, lo), c.Extract(a.args[1], hi, lo))
		}
	case "bvshl":
		// extract of (x << k) with const k
		if a.args[1].isConst && w <= 64 {
			k := int(a.args[1].cv)
			if lo >= k {
				return c.Extract(a.args[0], hi-k, lo-k)
			}
			if hi < k {
				return c.zero(nw)
			}
		}
	case "bvlshr":
		if a.args[1].isConst && w <= 64 {
			k := int(a.args[1].cv)
			if hi+k < w {
				return c.Extract(a.args[0], hi+k, lo+k)
			}
			if lo+k >= w {
				return c.zero(nw)
			}
		}
	case "ite":
		if a.args[1].isConst && a.args[2].isConst {
			return c.Ite(a.args[0], c.Extract(a.args[1], hi, lo), c.Extract(a.args[2], hi, lo))
		}
	}
	return c.intern(&Term{op: "extract", sort: BV(nw), args: []*Term{a}, p1: hi, p2: lo})
}

func (c *Ctx) Concat(hi, lo *Term) *Term {
	w := hi.sort.W + lo.sort.W
	if hi.isConst && lo.isConst {
		v := new(big.Int).Lsh(hi.BigVal(), uint(lo.sort.W))
		v.Or(v, lo.BigVal())
		return c.BVBig(v, w)
	}
	if isZero(hi) {
		return c.ZExt(lo, w)
	}
	// concat(extract(x,h,m+1), extract(x,m,l)) = extract(x,h,l)
	if hi.op == "extract" && lo.op == "extract" && hi.args[0] == lo.args[0] && hi.p2 == lo.p1+1 {
		return c.Extract(hi.args[0], hi.p1, lo.p2)
	}
	return c.intern(&Term{op: "concat", sort: BV(w), args: []*Term{hi, lo}})
}

func (c *Ctx) ZExt(a *Term, w int) *Term {
	iw := a.sort.W
	if w == iw {
		return a
	}
	if w < iw {
		return c.Extract(a, w-1, 0)
	}
	if a.isConst {
		return c.BVBig(a.BigVal(), w)
	}
	if a.op == "zext" {
		return c.ZExt(a.args[0], w)
	}
	if a.op == "ite" && a.args[1].isConst && a.args[2].isConst {
		return c.Ite(a.args[0], c.ZExt(a.args[1], w), c.ZExt(a.args[2], w))
	}
	return c.intern(&Term{op: "zext", sort: BV(w), args: []*Term{a}, p1: w - iw})
}

func (c *Ctx) SExt(a *Term, w int) *Term {
	iw := a.sort.W
	if w == iw {
		return a
	}
	if w < iw {
		return c.Extract(a, w-1, 0)
	}
	if a.isConst {
		if iw <= 64 && w <= 64 {
			return c.BVConst(uint64(sext64(a.cv, iw)), w)
		}
		v := a.BigVal()
		if v.Bit(iw-1) == 1 {
			v.Sub(v, new(big.Int).Lsh(big.NewInt(1), uint(iw)))
		}
		return c.BVBig(v, w)
	}
	if a.op == "zext" {
		return c.ZExt(a.args[0], w)
	}
	return c.intern(&Term{op: "sext", sort: BV(w), args: []*Term{a}, p1: w - iw})
}

// ---------- reals ----------

func (c *Ctx) realbin(op string, a, b *Term) *Term {
	if a.isConst && b.isConst {
		r := new(big.Rat)
		switch op {
		case "+":
			return c.RealConst(r.Add(a.crat, b.crat))
		case "-":
			return c.RealConst(r.Sub(a.crat, b.crat))
		case "*":
			return c.RealConst(r.Mul(a.crat, b.crat))
		case "/":
			if b.crat.Sign() != 0 {
				return c.RealConst(r.Quo(a.crat, b.crat))
			}
		}
	}
	return c.intern(&Term{op: "r" + op, sort: RealSort, args: []*Term{a, b}})
}
func (c *Ctx) RAdd(a, b *Term) *Term { return c.realbin("+", a, b) }
func (c *Ctx) RSub(a, b *Term) *Term { return c.realbin("-", a, b) }
func (c *Ctx) RMul(a, b *Term) *Term { return c.realbin("*", a, b) }
func (c *Ctx) RDiv(a, b *Term) *Term { return c.realbin("/", a, b) }
func (c *Ctx) RLt(a, b *Term) *Term {
	if a.isConst && b.isConst {
		return c.Bool(a.crat.Cmp(b.crat) < 0)
	}
	return c.intern(&Term{op: "r<", sort: BoolSort, args: []*Term{a, b}})
}
func (c *Ctx) RLe(a, b *Term) *Term {
	if a.isConst && b.isConst {
		return c.Bool(a.crat.Cmp(b.crat) <= 0)
	}
	return c.intern(&Term{op: "r<=", sort: BoolSort, args: []*Term{a, b}})
}

// Select on base arrays.
func (c *Ctx) Select(arr, idx *Term) *Term {
	return c.intern(&Term{op: "select", sort: BV(8), args: []*Term{arr, idx}})
}

// ---------- printing ----------

func bvLit(v *big.Int, w int) string {
	if w%4 == 0 {
		s := v.Text(16)
		for len(s) < w/4 {
			s = "0" + s
		}
		return "#x" + s
	}
	s := v.Text(2)
	for len(s) < w {
		s = "0" + s
	}
	return "#b" + s
}

type printer struct {
	c      *Ctx
	refs   map[int]int
	order  []*Term
	seen   map[int]bool
	named  map[int]string
	sb     *strings.Builder
	vars   map[string]*Term
	ufUsed map[string]bool
}

func (p *printer) count(t *Term) {
	// iterative DFS producing topological order
	type fr struct {
		t *Term
		i int
	}
	if p.seen[t.id] {
		p.refs[t.id]++
		return
	}
	stack := []fr{{t, 0}}
	p.seen[t.id] = true
	p.refs[t.id]++
	for len(stack) > 0 {
		f := &stack[len(stack)-1]
		if f.i < len(f.t.args) {
			a := f.t.args[f.i]
			f.i++
			p.refs[a.id]++
			if !p.seen[a.id] {
				p.seen[a.id] = true
				stack = append(stack, fr{a, 0})
			}
			continue
		}
		p.order = append(p.order, f.t)
		stack = stack[:len(stack)-1]
	}
}

func (p *printer) expr(t *Term, top bool) string {
	if !top {
		if n, ok := p.named[t.id]; ok {
			return n
		}
	}
	switch t.op {
	case "bvc":
		return bvLit(t.BigVal(), t.sort.W)
	case "boolc":
		if t.cv == 1 {
			return "true"
		}
		return "false"
	case "realc":
		num, den := t.crat.Num(), t.crat.Denom()
		ns := num.String()
		if num.Sign() < 0 {
			ns = "(- " + new(big.Int).Neg(num).String() + ".0)"
		} else {
			ns += ".0"
		}
		if den.Cmp(big.NewInt(1)) == 0 {
			return ns
		}
		return "(/ " + ns + " " + den.String() + ".0)"
	case "var":
		return "|" + t.name + "|"
	case "uf":
		if len(t.args) == 0 {
			return "|" + t.name + "|"
		}
		var sb strings.Builder
		sb.WriteString("(|" + t.name + "|")
		for _, a := range t.args {
			sb.WriteByte(' ')
			sb.WriteString(p.expr(a, false))
		}
		sb.WriteByte(')')
		return sb.String()
	case "extract":
		return fmt.Sprintf("((_ extract %d %d) %s)", t.p1, t.p2, p.expr(t.args[0], false))
	case "zext":
		return fmt.Sprintf("((_ zero_extend %d) %s)", t.p1, p.expr(t.args[0], false))
	case "sext":
		return fmt.Sprintf("((_ sign_extend %d) %s)", t.p1, p.expr(t.args[0], false))
	case "bv2real":
		x := p.expr(t.args[0], false)
		if t.p1 == 1 {
			w := t.args[0].sort.W
			return fmt.Sprintf("(to_real (ite (bvslt %s %s) (- (bv2nat %s) %s) (bv2nat %s)))", x, bvLit(new(big.Int), w), x, new(big.Int).Lsh(big.NewInt(1), uint(w)).String(), x)
		}
		return fmt.Sprintf("(to_real (bv2nat %s))", x)
	}
	op := t.op
	switch op {
	case "r+", "r-", "r*", "r/", "r<", "r<=":
		op = op[1:]
	}
	var sb strings.Builder
	sb.WriteByte('(')
	sb.WriteString(op)
	for _, a := range t.args {
		sb.WriteByte(' ')
		sb.WriteString(p.expr(a, false))
	}
	sb.WriteByte(')')
	return sb.String()
}

// Query is one solver query in two equivalent renderings: shared sub-terms as
// define-fun macros ("def": fast on z3 5.x) or as declared constants with defining
// equalities ("eq": fast on z3 4.8.12). Both are produced from the same term DAG.
type Query struct {
	Def string
	Eq  string
}

// Script renders a complete SMT-LIB2 script (declarations, definitions, assertions,
// check-sat) asserting all the given terms.
func (c *Ctx) Script(asserts []*Term, extra []*Term) *Query {
	return &Query{Def: c.script(asserts, extra, false), Eq: c.script(asserts, extra, true)}
}

func (c *Ctx) script(asserts []*Term, extra []*Term, eqForm bool) string {
	p := &printer{c: c, refs: map[int]int{}, seen: map[int]bool{}, named: map[int]string{}, sb: &strings.Builder{}}
	for _, a := range asserts {
		p.count(a)
	}
	for _, a := range extra {
		p.count(a)
	}
	sb := p.sb
	ufs := map[string]bool{}
	var varList []*Term
	for _, t := range p.order {
		if t.op == "var" {
			varList = append(varList, t)
		} else if t.op == "uf" {
			ufs[t.name] = true
		}
	}
	sort.Slice(varList, func(i, j int) bool { return varList[i].id < varList[j].id })
	for _, v := range varList {
		fmt.Fprintf(sb, "(declare-const |%s| %s)\n", v.name, v.sort)
	}
	for _, n := range c.ufList {
		if !ufs[n] {
			continue
		}
		d := c.ufs[n]
		var as []string
		for _, s := range d.args {
			as = append(as, s.String())
		}
		fmt.Fprintf(sb, "(declare-fun |%s| (%s) %s)\n", d.name, strings.Join(as, " "), d.ret)
	}
	for _, t := range p.order {
		if len(t.args) == 0 {
			continue
		}
		if p.refs[t.id] >= 2 {
			name := fmt.Sprintf("t%d", t.id)
			if eqForm {
				fmt.Fprintf(sb, "(declare-const %s %s)\n(assert (= %s %s))\n", name, t.sort, name, p.expr(t, true))
			} else {
				fmt.Fprintf(sb, "(define-fun %s () %s %s)\n", name, t.sort, p.expr(t, true))
			}
			p.named[t.id] = name
		}
	}
	for _, a := range asserts {
		fmt.Fprintf(sb, "(assert %s)\n", p.expr(a, false))
	}
	sb.WriteString("(check-sat)\n")
	return sb.String()
}

// Inline prints a term without sharing (for get-value on small terms). Any
// variable or UF it mentions must already be declared in the script.
func (c *Ctx) Inline(t *Term) string {
	p := &printer{c: c, named: map[int]string{}}
	return p.expr(t, false)
}
