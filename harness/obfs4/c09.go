//go:build verif

package obfs4

import (
	"bytes"

	"gitlab.com/yawning/obfs4.git/internal/verifrt"
	"gitlab.com/yawning/obfs4.git/transports/obfs4/framing"
)

// VerifC09PadBurst: lemma B1 – the burst padding arithmetic for every
// (buffered length, target) pair.
func VerifC09PadBurst() {
	maxQ := verifrt.Param("max_bursts")
	q := verifrt.IntRange("q", 0, maxQ)
	r := verifrt.IntRange("r", 0, framing.MaximumSegmentLength-1)
	target := verifrt.IntRange("target", 0, framing.MaximumSegmentLength)
	tail := q*framing.MaximumSegmentLength + r

	key := verifrt.Bytes("key", framing.KeyLength)
	conn := &obfs4Conn{encoder: framing.NewEncoder(key)}
	var burst bytes.Buffer
	burst.Write(verifrt.Bytes("pre", tail))

	before := burst.Len()
	err := conn.padBurst(&burst, target)
	verifrt.Assert(err == nil, "padBurst returns no error")
	added := burst.Len() - before

	// needed padding to end the burst exactly on the target length
	needed := target - r
	if needed < 0 {
		needed += framing.MaximumSegmentLength
	}
	if target == framing.MaximumSegmentLength && r == 0 {
		// target 1448 with an empty tail: one full segment of padding
		needed = framing.MaximumSegmentLength
	}
	switch {
	case needed == 0:
		verifrt.Reach("no padding needed")
		verifrt.Assert(added == 0, "nothing appended when the burst already ends on the target")
	case needed > headerLength:
		verifrt.Reach("one padding frame")
		verifrt.Assert(added == needed, "one frame appended, burst ends on target")
		verifrt.Assert(added <= framing.MaximumSegmentLength, "padding frame <= 1448")
	default:
		verifrt.Reach("two padding frames")
		if needed == headerLength {
			// boundary value: see DESIGN.md section 7 (both readings accepted)
			verifrt.Assert(added == headerLength || added == framing.MaximumSegmentLength+2*headerLength, "needed==21: one empty frame or the two-frame form")
		} else {
			verifrt.Assert(added == framing.MaximumSegmentLength+headerLength+needed, "two frames: a full frame plus a frame of 21+needed bytes")
		}
	}
	verifrt.Reach("end")
}
