package main

import (
	"os"
	"fmt"
	"go/constant"
	"go/token"
	"go/types"
	"math/big"
	"sort"
	"strings"

	"golang.org/x/tools/go/ssa"
)

var ratZero = new(big.Rat)
var traceBranches bool

// pathEnd terminates the current path (Go panic used for control flow).
type pathEnd struct {
	kind string // done, infeasible, unsupported, budget, unwind, blocked, exit
	msg  string
}

type Draw struct {
	Name  string
	Kind  string // int, byte, bool, bytes
	Term  *Term
	Node  *BNode
	Len   *Term
	Width int
}

type Violation struct {
	Harness string                 `json:"harness"`
	Kind    string                 `json:"kind"` // assert | panic | blocked
	Label   string                 `json:"label"`
	Site    string                 `json:"site"`
	Draws   []map[string]any       `json:"draws"`
	Trace   []int                  `json:"trace"`
	Extra   map[string]interface{} `json:"extra,omitempty"`
}

type PathResult struct {
	End         string
	Msg         string
	Steps       int
	Asserts     int // assertion queries discharged (unsat)
	TrivAsserts int
	Unknown     []string
	Violations  []*Violation
	Reached     map[string]map[string]any
	Forks       [][]int
	Trace       []int
	Funcs       map[string]int
	Models      map[string]bool
	Notes       []string
	TV          []string
}

type Frame struct {
	fn       *ssa.Function
	env      map[ssa.Value]Value
	block    *ssa.BasicBlock
	prev     *ssa.BasicBlock
	defers   []deferred
	caller   *Frame
	panicV   *PanicV
	symCount map[ssa.Instruction]int
	seenTrace map[ssa.Instruction]int
	result   Value
	binds    []Value
}

type deferred struct {
	fn   Value
	args []Value
	inst *ssa.Defer
}

type Exec struct {
	eng      *Engine
	h        *HarnessCfg
	ctx      *Ctx
	pool     *Pool
	pc       []*Term
	pcSet    map[int]bool
	prefix   []int
	pos      int
	trace    []int
	globals  map[*ssa.Global]*Obj
	pkgInit  map[*ssa.Package]int // 0 none,1 running,2 done
	draws    []Draw
	res      *PathResult
	selCache map[[2]int]*Term
	nodeID   int
	objID    int
	zeroN    *BNode
	steps    int
	depth    int
	frame    *Frame
	hashApps map[string][]*hashApp
	wit      []*Term
	tolerant int // >0 while running external package init in tolerant mode
	mayPanic int
	tape     []Draw // random tape (csrand / crypto/rand) in consumption order
	st       map[string]interface{}
	ubCache  map[int]uint64
	mutexes  map[*Obj]bool
	clock    *Term
	envDepth int
	sealApps []*sealApp
	fs       *fsModel
	strIntern map[string]*BNode
	allowInit *ssa.Function
	guardI    *guardInfo
	fpI       *fpInfo
}

func (ex *Exec) addAxiom(t *Term) { ex.addPC(t) }

func (ex *Exec) addPC(t *Term) {
	if t.IsTrue() {
		return
	}
	if t.op == "and" {
		for _, a := range t.args {
			ex.addPC(a)
		}
		return
	}
	if ex.pcSet[t.id] {
		return
	}
	ex.pcSet[t.id] = true
	ex.pc = append(ex.pc, t)
}

func (ex *Exec) unsupported(format string, a ...interface{}) {
	panic(pathEnd{kind: "unsupported", msg: fmt.Sprintf(format, a...)})
}

// feasible asks whether PC ∧ extra is satisfiable.
func (ex *Exec) feasible(extra *Term) Result {
	if extra.IsFalse() {
		return Unsat
	}
	for _, p := range ex.pc {
		if p.IsFalse() {
			return Unsat
		}
	}
	if ex.pcSet[ex.ctx.Not(extra).id] {
		return Unsat
	}
	as := make([]*Term, 0, len(ex.pc)+1)
	as = append(as, ex.pc...)
	as = append(as, extra)
	if os.Getenv("VERIF_ALLQ") != "" && ex.frame != nil {
		str := ex.ctx.Inline(extra)
		if len(str) > 160 {
			str = str[:160]
		}
		fmt.Printf("QUERY @%s pc=%d: %s\n", trimPkg(ex.frame.fn.String()), len(ex.pc), str)
	}
	script := ex.ctx.Script(as, nil)
	return ex.pool.Check(script, ex.eng.branchMs, ex.eng.branchSlowMs)
}

// branch decides a symbolic condition on this path, forking when both sides are feasible.
func (ex *Exec) branch(cond *Term) bool {
	if cond.IsTrue() {
		return true
	}
	if cond.IsFalse() {
		return false
	}
	c := ex.ctx
	if ex.pcSet[cond.id] {
		return true
	}
	if ex.pcSet[c.Not(cond).id] {
		return false
	}
	if ex.pos < len(ex.prefix) {
		d := ex.prefix[ex.pos]
		ex.pos++
		ex.trace = append(ex.trace, d)
		if d == 1 {
			ex.addPC(cond)
			return true
		}
		ex.addPC(c.Not(cond))
		return false
	}
	if traceBranches {
		where := ""
		if ex.frame != nil {
			where = ex.frame.fn.String()
			if ex.frame.caller != nil {
				where += " <- " + ex.frame.caller.fn.String()
			}
		}
		str := ex.ctx.Inline(cond)
		if len(str) > 300 {
			str = str[:300] + "..."
		}
		fmt.Printf("BRANCH @%s: %s\n", trimPkg(where), str)
	}
	rt := ex.feasible(cond)
	rf := Sat
	if rt != Unsat {
		rf = ex.feasible(c.Not(cond))
	}
	if rt == Unknown || rf == Unknown {
		ex.res.Unknown = append(ex.res.Unknown, "branch")
		if progress {
			where := ""
			if ex.frame != nil {
				where = trimPkg(ex.frame.fn.String())
			}
			str := ex.ctx.Inline(cond)
			if len(str) > 200 {
				str = str[:200]
			}
			fmt.Printf("  UNKNOWN-BRANCH trace=%v @%s: %s\n", ex.trace, where, str)
		}
	}
	switch {
	case rt == Unsat && rf == Unsat:
		panic(pathEnd{kind: "infeasible"})
	case rt == Unsat:
		// PC was satisfiable, so the negation holds on this path.
		ex.trace = append(ex.trace, 0)
		ex.addPC(c.Not(cond))
		return false
	case rf == Unsat:
		ex.trace = append(ex.trace, 1)
		ex.addPC(cond)
		return true
	}
	// both feasible: fork
	sib := make([]int, len(ex.trace)+1)
	copy(sib, ex.trace)
	sib[len(ex.trace)] = 0
	ex.res.Forks = append(ex.res.Forks, sib)
	ex.trace = append(ex.trace, 1)
	ex.addPC(cond)
	return true
}

// chooseN makes an n-way nondeterministic choice without consulting the solver (the
// caller guarantees every alternative is feasible).
func (ex *Exec) chooseN(n int) int {
	if n <= 1 {
		return 0
	}
	if ex.pos < len(ex.prefix) {
		d := ex.prefix[ex.pos]
		ex.pos++
		ex.trace = append(ex.trace, d)
		return d
	}
	for k := n - 1; k >= 1; k-- {
		sib := make([]int, len(ex.trace)+1)
		copy(sib, ex.trace)
		sib[len(ex.trace)] = k
		ex.res.Forks = append(ex.res.Forks, sib)
	}
	ex.trace = append(ex.trace, 0)
	return 0
}

// concretize picks a concrete value for t in [0,n) by forking.
func (ex *Exec) concretize(t *Term, n int, what string) int {
	if t.isConst {
		return int(t.cv)
	}
	if n > ex.eng.maxConcretize {
		ex.unsupported("concretize %s over %d values", what, n)
	}
	for i := 0; i < n; i++ {
		if ex.branch(ex.ctx.Eq(t, ex.ctx.BVConst(uint64(i), t.sort.W))) {
			return i
		}
	}
	panic(pathEnd{kind: "infeasible"})
}

// ---------- memory ----------

func (ex *Exec) newObj(v Value, name string) *Obj {
	ex.objID++
	return &Obj{id: ex.objID, val: v, name: name}
}

func (ex *Exec) project(v Value, path []Sel) Value {
	for k, s := range path {
		switch s.kind {
		case 0:
			sv, ok := v.(*StructV)
			if !ok {
				ex.unsupported("project field of %T", v)
			}
			v = sv.fields[s.field]
		case 1:
			switch a := v.(type) {
			case BytesV:
				v = ex.sel(a.node, s.idx)
			case *ArrayV:
				if !s.idx.isConst && len(a.elems) > 0 && len(a.elems) <= 4096 && k == len(path)-1 {
					// symbolic index into an array of scalars: ite chain (no fork)
					if t0, ok := a.elems[len(a.elems)-1].(*Term); ok {
						r := t0
						okAll := true
						for j := len(a.elems) - 2; j >= 0; j-- {
							tj, ok := a.elems[j].(*Term)
							if !ok || tj.sort != t0.sort {
								okAll = false
								break
							}
							r = ex.ctx.Ite(ex.ctx.Eq(s.idx, c64(ex.ctx, uint64(j))), tj, r)
						}
						if okAll {
							v = r
							continue
						}
					}
				}
				i := ex.concretize(s.idx, len(a.elems), "array index")
				v = a.elems[i]
			default:
				ex.unsupported("project index of %T", v)
			}
		case 2:
			a, ok := v.(BytesV)
			if !ok {
				ex.unsupported("window of %T", v)
			}
			v = BytesV{ex.shiftNode(a.node, s.idx), c64(ex.ctx, uint64(s.n))}
		}
	}
	return v
}

func (ex *Exec) update(v Value, path []Sel, nv Value) Value {
	if len(path) == 0 {
		return nv
	}
	s := path[0]
	switch s.kind {
	case 0:
		sv, ok := v.(*StructV)
		if !ok {
			ex.unsupported("update field of %T", v)
		}
		fs := make([]Value, len(sv.fields))
		copy(fs, sv.fields)
		fs[s.field] = ex.update(sv.fields[s.field], path[1:], nv)
		return &StructV{fs}
	case 1:
		switch a := v.(type) {
		case BytesV:
			if len(path) != 1 {
				ex.unsupported("deep path under byte")
			}
			t, ok := nv.(*Term)
			if !ok {
				ex.unsupported("store non-term into byte array: %T", nv)
			}
			return BytesV{ex.storeNode(a.node, s.idx, t), a.n}
		case *ArrayV:
			i := ex.concretize(s.idx, len(a.elems), "array index")
			es := make([]Value, len(a.elems))
			copy(es, a.elems)
			es[i] = ex.update(a.elems[i], path[1:], nv)
			return &ArrayV{es}
		}
		ex.unsupported("update index of %T", v)
	case 2:
		a, ok := v.(BytesV)
		if !ok || len(path) != 1 {
			ex.unsupported("window update of %T", v)
		}
		b, ok := nv.(BytesV)
		if !ok {
			ex.unsupported("window store of %T", nv)
		}
		return BytesV{ex.copyNode(a.node, s.idx, b.node, c64(ex.ctx, 0), c64(ex.ctx, uint64(s.n))), a.n}
	}
	return nil
}

func (ex *Exec) load(p Ptr) Value {
	if p.obj.opaque {
		ex.unsupported("load from opaque object %s", p.obj.name)
	}
	if p.obj.global != nil {
		ex.ensureGlobalInit(p.obj.global)
	}
	if p.obj.val == nil {
		ex.unsupported("load of uninitialised object %s", p.obj.name)
	}
	return ex.project(p.obj.val, p.path)
}

func (ex *Exec) store(p Ptr, v Value) {
	if p.obj.opaque {
		ex.unsupported("store to opaque object %s", p.obj.name)
	}
	if p.obj.global != nil && len(p.path) > 0 {
		ex.ensureGlobalInit(p.obj.global)
	}
	if ex.guardI != nil {
		ex.guardAccess(p, true)
	}
	if ex.fpI != nil {
		ex.fpAccess(p, true)
	}
	if ex.h != nil && ex.h.RaceMonitor {
		ex.raceWrite(p.obj)
	}
	p.obj.val = ex.update(p.obj.val, p.path, v)
}

// raceWrite: footprint monitor for concurrently running goroutines (sequentialised by the
// engine): a byte array that existed before the goroutines were started and is written by two
// different goroutines is shared mutable state without synchronisation.
func (ex *Exec) raceWrite(o *Obj) {
	g, _ := ex.st["cur_goroutine"].(int)
	if os.Getenv("VERIF_RACEDBG") != "" {
		fmt.Printf("RACEW g=%d obj=%d %s first=%v\n", g, o.id, o.name, ex.st["go_first_obj"])
	}
	if g == 0 {
		return
	}
	first, ok := ex.st["go_first_obj"].(int)
	if !ok || o.id > first {
		return
	}
	if _, isBytes := o.val.(BytesV); !isBytes {
		return
	}
	w, _ := ex.st["race_writers"].(map[*Obj]int)
	if w == nil {
		w = map[*Obj]int{}
		ex.st["race_writers"] = w
	}
	if prev, seen := w[o]; seen && prev != g {
		if ex.st["race_reported"] == nil {
			ex.st["race_reported"] = true
			v := &Violation{Harness: ex.h.Name, Kind: "assert", Label: "data race: the byte buffer " + o.name + " (allocated before the goroutines started) is written by two concurrent goroutines", Site: ex.frame.fn.String()}
			ex.fillModel(v, nil)
			ex.res.Violations = append(ex.res.Violations, v)
		}
		return
	}
	w[o] = g
}

// bytesAt returns the BytesV a pointer-to-byte-array designates.
func (ex *Exec) bytesOf(p Ptr) BytesV {
	v := ex.load(p)
	b, ok := v.(BytesV)
	if !ok {
		ex.unsupported("expected byte array, got %T", v)
	}
	return b
}

// sliceRegion returns the region of a byte slice.
func (ex *Exec) sliceRegion(s SliceV) Region {
	if s.IsNil() {
		return Region{ex.zeroNode(), c64(ex.ctx, 0), c64(ex.ctx, 0)}
	}
	b := ex.bytesOf(s.base)
	return Region{b.node, s.off, s.len}
}

func (ex *Exec) stringRegion(s StringV) Region {
	return Region{s.node, c64(ex.ctx, 0), s.len}
}

// writeRegion overwrites slice dst[dOff : dOff+n) with src region bytes.
func (ex *Exec) writeBytes(dst SliceV, dOff *Term, src Region, n *Term) {
	if isZero(n) {
		return
	}
	b := ex.bytesOf(dst.base)
	nn := ex.copyNode(b.node, ex.ctx.Add(dst.off, dOff), src.node, src.off, n)
	ex.store(dst.base, BytesV{nn, b.n})
}

// newByteSlice allocates a fresh byte array object with the given content node.
func (ex *Exec) newByteSlice(node *BNode, n, capT *Term) SliceV {
	o := ex.newObj(BytesV{node, capT}, "bytes")
	return SliceV{base: Ptr{obj: o}, off: c64(ex.ctx, 0), len: n, cap: capT}
}

func (ex *Exec) mkString(s string) StringV {
	if ex.strIntern == nil {
		ex.strIntern = map[string]*BNode{}
	}
	n, ok := ex.strIntern[s]
	if !ok {
		n = ex.litNode([]byte(s))
		ex.strIntern[s] = n
	}
	return StringV{n, c64(ex.ctx, uint64(len(s)))}
}

// concreteString returns the Go string if the StringV is fully concrete.
func (ex *Exec) concreteString(s StringV) (string, bool) {
	if !s.len.isConst {
		return "", false
	}
	n := int(s.len.cv)
	b := make([]byte, n)
	for i := 0; i < n; i++ {
		t := ex.sel(s.node, c64(ex.ctx, uint64(i)))
		if !t.isConst {
			return "", false
		}
		b[i] = byte(t.cv)
	}
	return string(b), true
}

// ---------- globals ----------

func (ex *Exec) globalObj(g *ssa.Global) *Obj {
	if o, ok := ex.globals[g]; ok {
		return o
	}
	et := g.Type().(*types.Pointer).Elem()
	o := ex.newObj(nil, g.String())
	o.global = g
	o.typ = et
	ex.globals[g] = o
	func() {
		defer func() {
			if r := recover(); r != nil {
				if pe, ok := r.(pathEnd); ok && pe.kind == "unsupported" {
					o.val = nil
					return
				}
				panic(r)
			}
		}()
		o.val = ex.zeroValue(et)
	}()
	return o
}

func (ex *Exec) ensureGlobalInit(g *ssa.Global) {
	pkg := g.Pkg
	if pkg == nil || ex.pkgInit[pkg] != 0 {
		return
	}
	ex.runPkgInit(pkg)
}

func (ex *Exec) runPkgInit(pkg *ssa.Package) {
	if ex.pkgInit[pkg] != 0 {
		return
	}
	ex.pkgInit[pkg] = 1
	initFn := pkg.Func("init")
	if initFn == nil || initFn.Blocks == nil {
		ex.pkgInit[pkg] = 2
		return
	}
	ex.tolerant++
	savedFrame := ex.frame
	savedSteps := ex.steps
	func() {
		defer func() {
			if r := recover(); r != nil {
				if pe, ok := r.(pathEnd); ok && (pe.kind == "unsupported" || pe.kind == "budget") {
					ex.res.Notes = append(ex.res.Notes, "pkg init "+pkg.Pkg.Path()+" partial: "+pe.msg)
					return
				}
				panic(r)
			}
		}()
		ex.allowInit = initFn
		ex.callFunction(initFn, nil, nil)
	}()
	ex.frame = savedFrame
	ex.steps = savedSteps
	ex.tolerant--
	ex.pkgInit[pkg] = 2
}

// ---------- constants ----------

func (ex *Exec) constValue(cn *ssa.Const) Value {
	c := ex.ctx
	t := cn.Type()
	if cn.Value == nil {
		return ex.zeroValue(t)
	}
	switch u := t.Underlying().(type) {
	case *types.Basic:
		switch {
		case u.Info()&types.IsBoolean != 0:
			return c.Bool(constant.BoolVal(cn.Value))
		case u.Info()&types.IsInteger != 0:
			w := basicWidth(u)
			v := constant.ToInt(cn.Value)
			bi, ok := new(big.Int).SetString(v.ExactString(), 10)
			if !ok {
				ex.unsupported("const int %v", cn.Value)
			}
			return c.BVBig(bi, w)
		case u.Info()&types.IsFloat != 0:
			r, ok := new(big.Rat).SetString(constant.ToFloat(cn.Value).ExactString())
			if !ok {
				ex.unsupported("const float %v", cn.Value)
			}
			return c.RealConst(r)
		case u.Info()&types.IsString != 0:
			return ex.mkString(constant.StringVal(cn.Value))
		}
	}
	ex.unsupported("const %v of type %v", cn.Value, t)
	return nil
}

// ---------- evaluation of operands ----------

func (ex *Exec) get(fr *Frame, v ssa.Value) Value {
	switch x := v.(type) {
	case *ssa.Const:
		return ex.constValue(x)
	case *ssa.Global:
		return Ptr{obj: ex.globalObj(x)}
	case *ssa.Function:
		return FuncV{fn: x}
	case *ssa.Builtin:
		return FuncV{builtin: x}
	case *ssa.FreeVar:
		for i, fv := range fr.fn.FreeVars {
			if fv == x {
				return fr.binds[i]
			}
		}
		ex.unsupported("free var %s not found", x.Name())
	}
	r, ok := fr.env[v]
	if !ok {
		ex.unsupported("value %s (%T) not in env of %s", v.Name(), v, fr.fn)
	}
	return r
}

func (ex *Exec) term(fr *Frame, v ssa.Value) *Term {
	x := ex.get(fr, v)
	t, ok := x.(*Term)
	if !ok {
		ex.unsupported("expected scalar for %s in %s, got %T", v.Name(), fr.fn, x)
	}
	return t
}

// toInt64 converts an integer term of the given Go type to BV64 (for len/index use).
func (ex *Exec) to64(t *Term, signed bool) *Term {
	if t.sort.W == 64 {
		return t
	}
	if signed {
		return ex.ctx.SExt(t, 64)
	}
	return ex.ctx.ZExt(t, 64)
}

// ---------- calls ----------

func (ex *Exec) callValue(fv Value, args []Value, site ssa.Instruction) (Value, *PanicV) {
	f, ok := fv.(FuncV)
	if !ok {
		ex.unsupported("call of non-function %T", fv)
	}
	if f.builtin != nil {
		return ex.callBuiltin(f.builtin, args, site)
	}
	if f.fn == nil {
		return nil, ex.rtPanic("invalid memory address or nil pointer dereference (nil func)")
	}
	return ex.callFunction(f.fn, args, f.bind)
}

func fnName(fn *ssa.Function) string {
	if fn.Origin() != nil {
		return fn.Origin().String()
	}
	return fn.String()
}

func (ex *Exec) callFunction(fn *ssa.Function, args []Value, binds []Value) (Value, *PanicV) {
	name := fnName(fn)
	if m, ok := ex.eng.models[name]; ok && !ex.isReal(name) {
		ex.res.Models[name] = true
		return m(ex, fn, args)
	}
	if fn.Synthetic == "package initializer" && ex.allowInit != fn {
		// dependency initialisers are run lazily, when one of their globals is first used
		return nil, nil
	}
	if fn.Blocks == nil {
		ex.unsupported("external function without model: %s", name)
	}
	if ex.depth > 200 {
		ex.unsupported("call depth exceeded at %s", name)
	}
	ex.depth++
	defer func() { ex.depth-- }()
	if _, seen := ex.res.Funcs[name]; !seen {
		n := 0
		for _, b := range fn.Blocks {
			n += len(b.Instrs)
		}
		ex.res.Funcs[name] = n
	}
	fr := &Frame{fn: fn, env: make(map[ssa.Value]Value, 32), caller: ex.frame, binds: binds}
	for i, p := range fn.Params {
		if i < len(args) {
			fr.env[p] = args[i]
		}
	}
	saved := ex.frame
	ex.frame = fr
	defer func() { ex.frame = saved }()
	return ex.run(fr)
}

func (ex *Exec) isReal(name string) bool {
	if ex.h == nil {
		return false
	}
	for _, r := range ex.h.Real {
		if r == name {
			return true
		}
	}
	return false
}

func (ex *Exec) rtPanic(msg string) *PanicV {
	site := ""
	if ex.frame != nil {
		site = ex.frame.fn.String()
	}
	return &PanicV{runtime: true, msg: "runtime error: " + msg, site: site}
}

// rtCheck forks on a runtime check; returns a panic when the check fails on this path.
func (ex *Exec) rtCheck(ok *Term, msg string) *PanicV {
	if ok.IsTrue() {
		return nil
	}
	if ex.branch(ok) {
		return nil
	}
	return ex.rtPanic(msg)
}

// run executes the frame until return or panic.
func (ex *Exec) run(fr *Frame) (Value, *PanicV) {
	fr.block = fr.fn.Blocks[0]
	for {
		var pan *PanicV
		var done bool
		pan, done = ex.runBlock(fr)
		if pan != nil {
			// unwinding: run deferred calls
			fr.panicV = pan
			ex.runDefers(fr)
			if fr.panicV != nil {
				return nil, fr.panicV
			}
			// recovered
			if fr.fn.Recover != nil {
				fr.prev = fr.block
				fr.block = fr.fn.Recover
				continue
			}
			return ex.zeroResults(fr.fn), nil
		}
		if done {
			return fr.result, nil
		}
	}
}

func (ex *Exec) zeroResults(fn *ssa.Function) Value {
	res := fn.Signature.Results()
	switch res.Len() {
	case 0:
		return nil
	case 1:
		return ex.zeroValue(res.At(0).Type())
	}
	tv := make(TupleV, res.Len())
	for i := range tv {
		tv[i] = ex.zeroValue(res.At(i).Type())
	}
	return tv
}

func (ex *Exec) runDefers(fr *Frame) {
	for len(fr.defers) > 0 {
		d := fr.defers[len(fr.defers)-1]
		fr.defers = fr.defers[:len(fr.defers)-1]
		_, pan := ex.callAny(d.fn, d.args, d.inst)
		if pan != nil {
			// a panic in a deferred call replaces the current one
			fr.panicV = pan
		}
	}
}

func (ex *Exec) runBlock(fr *Frame) (*PanicV, bool) {
	for _, ins := range fr.block.Instrs {
		ex.steps++
		if ex.steps > ex.eng.maxSteps {
			panic(pathEnd{kind: "budget", msg: fmt.Sprintf("step budget exceeded in %s", fr.fn)})
		}
		switch i := ins.(type) {
		case *ssa.Jump:
			fr.prev = fr.block
			fr.block = fr.block.Succs[0]
			return nil, false
		case *ssa.If:
			cond := ex.term(fr, i.Cond)
			var taken bool
			// An iteration counts towards the unwinding bound when a symbolic decision was
			// taken (here or in a callee) since this branch was last executed in this frame.
			if fr.symCount == nil {
				fr.symCount = map[ssa.Instruction]int{}
				fr.seenTrace = map[ssa.Instruction]int{}
			}
			last, visited := fr.seenTrace[i]
			if !cond.isConst || (visited && len(ex.trace) != last) {
				fr.symCount[i]++
				if k, ok := ex.h.UnwindAssume[fr.fn.String()]; ok && fr.symCount[i] > k {
					ex.eng.noteOnce("assumed: loop in " + trimPkg(fr.fn.String()) + " exits within " + itoa(k) + " iterations (rejection sampling; outside the claim beyond that)")
					panic(pathEnd{kind: "infeasible"})
				}
				if k, ok := ex.h.UnwindCut[fr.fn.String()]; ok && fr.symCount[i] > k {
					ex.eng.noteOnce("cut: loop in " + trimPkg(fr.fn.String()) + " explored for " + itoa(k) + " iterations only (later iterations are outside the claim)")
					panic(pathEnd{kind: "cut"})
				}
				if fr.symCount[i] > ex.unwindBound(fr.fn) {
					panic(pathEnd{kind: "unwind", msg: fmt.Sprintf("loop bound %d exceeded in %s at %s", ex.unwindBound(fr.fn), fr.fn, ex.eng.pos(i))})
				}
			}
			if cond.isConst {
				taken = cond.cv == 1
			} else {
				taken = ex.branch(cond)
			}
			fr.seenTrace[i] = len(ex.trace)
			fr.prev = fr.block
			if taken {
				fr.block = fr.block.Succs[0]
			} else {
				fr.block = fr.block.Succs[1]
			}
			return nil, false
		case *ssa.Return:
			switch len(i.Results) {
			case 0:
				fr.result = nil
			case 1:
				fr.result = ex.get(fr, i.Results[0])
			default:
				tv := make(TupleV, len(i.Results))
				for k, r := range i.Results {
					tv[k] = ex.get(fr, r)
				}
				fr.result = tv
			}
			return nil, true
		case *ssa.Panic:
			v := ex.get(fr, i.X)
			return &PanicV{val: v, msg: ex.describePanic(v), site: fr.fn.String()}, false
		case *ssa.RunDefers:
			ex.runDefers(fr)
			if fr.panicV != nil {
				return fr.panicV, false
			}
		default:
			if pan := ex.exec(fr, ins); pan != nil {
				return pan, false
			}
		}
	}
	ex.unsupported("block fell through in %s", fr.fn)
	return nil, true
}

func (ex *Exec) unwindBound(fn *ssa.Function) int {
	if ex.h != nil {
		if b, ok := ex.h.UnwindFn[fn.String()]; ok {
			return b
		}
		if ex.h.Unwind > 0 {
			return ex.h.Unwind
		}
	}
	return ex.eng.unwind
}

func (ex *Exec) describePanic(v Value) string {
	if iv, ok := v.(IfaceV); ok {
		switch x := iv.val.(type) {
		case StringV:
			if s, ok := ex.concreteString(x); ok {
				return s
			}
			return "<symbolic string>"
		case Ptr:
			if iv.typ != nil {
				return "panic(" + iv.typ.String() + ")"
			}
		}
		if iv.typ != nil {
			return "panic(" + iv.typ.String() + ")"
		}
	}
	return "panic"
}

// ---------- instruction execution ----------

func (ex *Exec) exec(fr *Frame, ins ssa.Instruction) *PanicV {
	c := ex.ctx
	switch i := ins.(type) {
	case *ssa.DebugRef:
		return nil
	case *ssa.Alloc:
		et := i.Type().(*types.Pointer).Elem()
		o := ex.newObj(ex.zeroValue(et), i.Comment)
		o.typ = et
		fr.env[i] = Ptr{obj: o}
	case *ssa.Phi:
		for k, pred := range fr.block.Preds {
			if pred == fr.prev {
				fr.env[i] = ex.get(fr, i.Edges[k])
				return nil
			}
		}
		ex.unsupported("phi: no matching predecessor")
	case *ssa.BinOp:
		v, pan := ex.binop(i.Op, ex.get(fr, i.X), ex.get(fr, i.Y), i.X.Type(), i.Y.Type())
		if pan != nil {
			return pan
		}
		fr.env[i] = v
	case *ssa.UnOp:
		return ex.unop(fr, i)
	case *ssa.Store:
		p, ok := ex.get(fr, i.Addr).(Ptr)
		if !ok {
			ex.unsupported("store to non-pointer")
		}
		if p.IsNil() {
			return ex.rtPanic("invalid memory address or nil pointer dereference")
		}
		ex.store(p, ex.get(fr, i.Val))
	case *ssa.FieldAddr:
		p, ok := ex.get(fr, i.X).(Ptr)
		if !ok {
			ex.unsupported("FieldAddr on %T", ex.get(fr, i.X))
		}
		if p.IsNil() {
			return ex.rtPanic("invalid memory address or nil pointer dereference")
		}
		fr.env[i] = p.field(i.Field)
	case *ssa.Field:
		sv, ok := ex.get(fr, i.X).(*StructV)
		if !ok {
			ex.unsupported("Field on %T", ex.get(fr, i.X))
		}
		fr.env[i] = sv.fields[i.Field]
	case *ssa.IndexAddr:
		return ex.indexAddr(fr, i)
	case *ssa.Index:
		x := ex.get(fr, i.X)
		idx := ex.to64(ex.term(fr, i.Index), isSigned(i.Index.Type()))
		switch a := x.(type) {
		case BytesV:
			if pan := ex.rtCheck(c.Ult(idx, a.n), "index out of range"); pan != nil {
				return pan
			}
			fr.env[i] = ex.sel(a.node, idx)
		case *ArrayV:
			if pan := ex.rtCheck(c.Ult(idx, c64(c, uint64(len(a.elems)))), "index out of range"); pan != nil {
				return pan
			}
			k := ex.concretize(idx, len(a.elems), "array index")
			fr.env[i] = a.elems[k]
		case StringV:
			if pan := ex.rtCheck(c.Ult(idx, a.len), "index out of range"); pan != nil {
				return pan
			}
			fr.env[i] = ex.sel(a.node, idx)
		default:
			ex.unsupported("Index on %T", x)
		}
	case *ssa.Slice:
		return ex.sliceOp(fr, i)
	case *ssa.MakeSlice:
		return ex.makeSlice(fr, i)
	case *ssa.Convert:
		v, pan := ex.convert(ex.get(fr, i.X), i.X.Type(), i.Type())
		if pan != nil {
			return pan
		}
		fr.env[i] = v
	case *ssa.MultiConvert:
		v, pan := ex.convert(ex.get(fr, i.X), i.X.Type(), i.Type())
		if pan != nil {
			return pan
		}
		fr.env[i] = v
	case *ssa.ChangeType:
		fr.env[i] = ex.get(fr, i.X)
	case *ssa.ChangeInterface:
		fr.env[i] = ex.get(fr, i.X)
	case *ssa.SliceToArrayPointer:
		s := ex.get(fr, i.X).(SliceV)
		at := i.Type().(*types.Pointer).Elem().Underlying().(*types.Array)
		n := at.Len()
		if pan := ex.rtCheck(c.Ule(c64(c, uint64(n)), s.len), "cannot convert slice to array pointer: length too short"); pan != nil {
			return pan
		}
		if s.IsNil() {
			fr.env[i] = Ptr{}
			return nil
		}
		if isByte(at.Elem()) {
			b := ex.bytesOf(s.base)
			if isZero(s.off) && b.n.isConst && b.n.cv == uint64(n) {
				fr.env[i] = s.base
			} else {
				fr.env[i] = s.base.window(s.off, int(n))
			}
		} else {
			ex.unsupported("SliceToArrayPointer of non-byte slice")
		}
	case *ssa.MakeInterface:
		fr.env[i] = IfaceV{typ: i.X.Type(), val: ex.get(fr, i.X)}
	case *ssa.TypeAssert:
		return ex.typeAssert(fr, i)
	case *ssa.Extract:
		tv, ok := ex.get(fr, i.Tuple).(TupleV)
		if !ok {
			ex.unsupported("extract from %T", ex.get(fr, i.Tuple))
		}
		fr.env[i] = tv[i.Index]
	case *ssa.MakeClosure:
		binds := make([]Value, len(i.Bindings))
		for k, b := range i.Bindings {
			binds[k] = ex.get(fr, b)
		}
		fr.env[i] = FuncV{fn: i.Fn.(*ssa.Function), bind: binds}
	case *ssa.Call:
		v, pan := ex.doCall(fr, &i.Call, i)
		if pan != nil {
			return pan
		}
		fr.env[i] = v
	case *ssa.Defer:
		fv, args := ex.prepareCall(fr, &i.Call)
		fr.defers = append(fr.defers, deferred{fn: fv, args: args, inst: i})
	case *ssa.Go:
		fv, args := ex.prepareCall(fr, &i.Call)
		return ex.goStmt(fr, fv, args, i)
	case *ssa.MakeMap:
		ex.objID++
		fr.env[i] = MapV{&MapObj{id: ex.objID, typ: i.Type().Underlying().(*types.Map)}}
	case *ssa.MapUpdate:
		m := ex.get(fr, i.Map).(MapV)
		if m.m == nil {
			return ex.rtPanic("assignment to entry in nil map")
		}
		ex.mapUpdate(m.m, ex.get(fr, i.Key), ex.get(fr, i.Value))
	case *ssa.Lookup:
		return ex.lookup(fr, i)
	case *ssa.Range:
		x := ex.get(fr, i.X)
		switch a := x.(type) {
		case MapV:
			it := &RangeIter{isMap: true}
			if a.m != nil {
				it.entries = append(it.entries, a.m.entries...)
				if ex.h != nil && ex.h.ReverseMaps {
					for l, r := 0, len(it.entries)-1; l < r; l, r = l+1, r-1 {
						it.entries[l], it.entries[r] = it.entries[r], it.entries[l]
					}
				}
			}
			fr.env[i] = it
		case StringV:
			fr.env[i] = &RangeIter{str: a}
		default:
			ex.unsupported("range over %T", x)
		}
	case *ssa.Next:
		it := ex.get(fr, i.Iter).(*RangeIter)
		if it.isMap {
			if it.pos < len(it.entries) {
				e := it.entries[it.pos]
				it.pos++
				fr.env[i] = TupleV{c.Bool(true), e.key, e.val}
			} else {
				mt := i.Type().(*types.Tuple)
				fr.env[i] = TupleV{c.Bool(false), ex.zeroValue(mt.At(1).Type()), ex.zeroValue(mt.At(2).Type())}
			}
		} else {
			// string iteration decodes UTF-8 (invalid sequences yield U+FFFD and advance by one byte)
			n := ex.concretize(it.str.len, ex.eng.maxConcretize, "string length")
			if it.pos < n {
				r, sz := ex.decodeRune(it.str, it.pos, n)
				fr.env[i] = TupleV{c.Bool(true), c64(c, uint64(it.pos)), r}
				it.pos += sz
			} else {
				fr.env[i] = TupleV{c.Bool(false), c64(c, 0), c.BVConst(0, 32)}
			}
		}
	case *ssa.MakeChan:
		sz := ex.term(fr, i.Size)
		if !sz.isConst {
			ex.unsupported("symbolic channel size")
		}
		ex.objID++
		fr.env[i] = ChanV{&ChanObj{id: ex.objID, cap: int(sz.cv), elem: i.Type().Underlying().(*types.Chan).Elem()}}
	case *ssa.Send:
		ch := ex.get(fr, i.Chan).(ChanV)
		return ex.chanSend(ch, ex.get(fr, i.X))
	case *ssa.Select:
		return ex.selectStmt(fr, i)
	default:
		ex.unsupported("instruction %T in %s", ins, fr.fn)
	}
	return nil
}

// decodeRune decodes one UTF-8 sequence of s at byte offset pos (n = len(s)), forking on
// the byte classes exactly as utf8.DecodeRuneInString does.
func (ex *Exec) decodeRune(s StringV, pos, n int) (*Term, int) {
	c := ex.ctx
	at := func(k int) *Term { return ex.sel(s.node, c64(c, uint64(pos+k))) }
	k8 := func(v uint64) *Term { return c.BVConst(v, 8) }
	in := func(b *Term, lo, hi uint64) bool {
		return ex.branch(c.And(c.Ule(k8(lo), b), c.Ule(b, k8(hi))))
	}
	z := func(b *Term, mask uint64) *Term { return c.ZExt(c.BAnd(b, k8(mask)), 32) }
	sh := func(t *Term, k uint64) *Term { return c.Shl(t, c.BVConst(k, 32)) }
	bad := c.BVConst(0xFFFD, 32)
	b0 := at(0)
	if ex.branch(c.Ult(b0, k8(0x80))) {
		return c.ZExt(b0, 32), 1
	}
	if in(b0, 0xC2, 0xDF) {
		if n-pos >= 2 && in(at(1), 0x80, 0xBF) {
			return c.BOr(sh(z(b0, 0x1F), 6), z(at(1), 0x3F)), 2
		}
		return bad, 1
	}
	if in(b0, 0xE0, 0xEF) {
		if n-pos < 3 {
			return bad, 1
		}
		lo, hi := uint64(0x80), uint64(0xBF)
		if ex.branch(c.Eq(b0, k8(0xE0))) {
			lo = 0xA0
		} else if ex.branch(c.Eq(b0, k8(0xED))) {
			hi = 0x9F
		}
		if in(at(1), lo, hi) && in(at(2), 0x80, 0xBF) {
			return c.BOr(c.BOr(sh(z(b0, 0x0F), 12), sh(z(at(1), 0x3F), 6)), z(at(2), 0x3F)), 3
		}
		return bad, 1
	}
	if in(b0, 0xF0, 0xF4) {
		if n-pos < 4 {
			return bad, 1
		}
		lo, hi := uint64(0x80), uint64(0xBF)
		if ex.branch(c.Eq(b0, k8(0xF0))) {
			lo = 0x90
		} else if ex.branch(c.Eq(b0, k8(0xF4))) {
			hi = 0x8F
		}
		if in(at(1), lo, hi) && in(at(2), 0x80, 0xBF) && in(at(3), 0x80, 0xBF) {
			return c.BOr(c.BOr(c.BOr(sh(z(b0, 0x07), 18), sh(z(at(1), 0x3F), 12)), sh(z(at(2), 0x3F), 6)), z(at(3), 0x3F)), 4
		}
		return bad, 1
	}
	return bad, 1
}

func (ex *Exec) prepareCall(fr *Frame, call *ssa.CallCommon) (Value, []Value) {
	if call.IsInvoke() {
		recv := ex.get(fr, call.Value)
		iv, ok := recv.(IfaceV)
		if !ok {
			ex.unsupported("invoke on %T", recv)
		}
		args := make([]Value, 0, len(call.Args)+1)
		for _, a := range call.Args {
			args = append(args, ex.get(fr, a))
		}
		return &invokeTarget{iv: iv, method: call.Method}, args
	}
	fv := ex.get(fr, call.Value)
	args := make([]Value, len(call.Args))
	for k, a := range call.Args {
		args[k] = ex.get(fr, a)
	}
	return fv, args
}

type invokeTarget struct {
	iv     IfaceV
	method *types.Func
}

func (ex *Exec) doCall(fr *Frame, call *ssa.CallCommon, site ssa.Instruction) (Value, *PanicV) {
	fv, args := ex.prepareCall(fr, call)
	return ex.callAny(fv, args, site)
}

func (ex *Exec) callAny(fv Value, args []Value, site ssa.Instruction) (Value, *PanicV) {
	if it, ok := fv.(*invokeTarget); ok {
		return ex.invoke(it.iv, it.method, args)
	}
	return ex.callValue(fv, args, site)
}

func (ex *Exec) invoke(iv IfaceV, method *types.Func, args []Value) (Value, *PanicV) {
	if iv.typ == nil {
		return nil, ex.rtPanic("invalid memory address or nil pointer dereference (nil interface method call " + method.Name() + ")")
	}
	if mt, ok := iv.typ.(*modelType); ok {
		mo := iv.val.(*ModelObj)
		return ex.modelInvoke(mt, mo, method.Name(), args)
	}
	// models keyed by "(dynType).Method"
	ms := ex.eng.prog.MethodSets.MethodSet(iv.typ)
	sel := ms.Lookup(method.Pkg(), method.Name())
	if sel == nil {
		ex.unsupported("method %s not found on %v", method.Name(), iv.typ)
	}
	fn := ex.eng.prog.MethodValue(sel)
	if fn == nil {
		ex.unsupported("no method value for %v.%s", iv.typ, method.Name())
	}
	all := make([]Value, 0, len(args)+1)
	all = append(all, iv.val)
	all = append(all, args...)
	return ex.callFunction(fn, all, nil)
}

func (ex *Exec) goStmt(fr *Frame, fv Value, args []Value, site ssa.Instruction) *PanicV {
	// Sequentialisation: the goroutine is run to completion here (see DESIGN 2.7a),
	// unless the harness asked for goroutines to be queued.
	if ex.coop() {
		ex.coSpawn(fv, args)
		return nil
	}
	if ex.h != nil && ex.h.QueueGo {
		if _, ok := ex.st["go_first_obj"]; !ok {
			ex.st["go_first_obj"] = ex.objID // objects with a smaller id existed before the first goroutine started
		}
		n, _ := ex.st["go_count"].(int)
		ex.st["go_count"] = n + 1
		ex.st["goq"] = append(ex.goQueue(), goTask{fv, args, n + 1})
		return nil
	}
	_, pan := ex.callAny(fv, args, site)
	return pan
}

type goTask struct {
	fn   Value
	args []Value
	id   int
}

func (ex *Exec) goQueue() []goTask {
	q, _ := ex.st["goq"].([]goTask)
	return q
}

// ---------- unop ----------

func (ex *Exec) unop(fr *Frame, i *ssa.UnOp) *PanicV {
	c := ex.ctx
	x := ex.get(fr, i.X)
	switch i.Op {
	case token.MUL: // load
		p, ok := x.(Ptr)
		if !ok {
			ex.unsupported("deref of %T", x)
		}
		if p.IsNil() {
			return ex.rtPanic("invalid memory address or nil pointer dereference")
		}
		if ex.guardI != nil {
			ex.guardAccess(p, false)
		}
		if ex.fpI != nil {
			ex.fpAccess(p, false)
		}
		fr.env[i] = ex.load(p)
	case token.NOT:
		fr.env[i] = c.Not(x.(*Term))
	case token.SUB:
		t := x.(*Term)
		if t.sort.K == KReal {
			fr.env[i] = c.RSub(c.RealConst(ratZero), t)
		} else {
			fr.env[i] = c.Neg(t)
		}
	case token.XOR:
		fr.env[i] = c.BNot(x.(*Term))
	case token.ARROW:
		ch := x.(ChanV)
		v, ok, pan := ex.chanRecv(ch, i.Type(), i.CommaOk)
		if pan != nil {
			return pan
		}
		if i.CommaOk {
			fr.env[i] = TupleV{v, ok}
		} else {
			fr.env[i] = v
		}
	default:
		ex.unsupported("unop %v", i.Op)
	}
	return nil
}

// ---------- binop ----------

func (ex *Exec) binop(op token.Token, x, y Value, xt, yt types.Type) (Value, *PanicV) {
	c := ex.ctx
	switch a := x.(type) {
	case *Term:
		b, ok := y.(*Term)
		if !ok {
			ex.unsupported("binop term vs %T", y)
		}
		if a.sort.K == KBool {
			switch op {
			case token.EQL:
				return c.Eq(a, b), nil
			case token.NEQ:
				return c.Not(c.Eq(a, b)), nil
			case token.AND, token.LAND:
				return c.And(a, b), nil
			case token.OR, token.LOR:
				return c.Or(a, b), nil
			}
			ex.unsupported("bool binop %v", op)
		}
		if a.sort.K == KReal {
			switch op {
			case token.ADD:
				return c.RAdd(a, b), nil
			case token.SUB:
				return c.RSub(a, b), nil
			case token.MUL:
				return c.RMul(a, b), nil
			case token.QUO:
				return c.RDiv(a, b), nil
			case token.EQL:
				return c.Eq(a, b), nil
			case token.NEQ:
				return c.Not(c.Eq(a, b)), nil
			case token.LSS:
				return c.RLt(a, b), nil
			case token.LEQ:
				return c.RLe(a, b), nil
			case token.GTR:
				return c.RLt(b, a), nil
			case token.GEQ:
				return c.RLe(b, a), nil
			}
			ex.unsupported("real binop %v", op)
		}
		signed := isSigned(xt)
		switch op {
		case token.ADD:
			return c.Add(a, b), nil
		case token.SUB:
			return c.Sub(a, b), nil
		case token.MUL:
			return c.Mul(a, b), nil
		case token.QUO, token.REM:
			if pan := ex.rtCheck(c.Not(c.Eq(b, c.zero(b.sort.W))), "integer divide by zero"); pan != nil {
				return nil, pan
			}
			if signed {
				if op == token.QUO {
					return c.SDiv(a, b), nil
				}
				return c.SRem(a, b), nil
			}
			if op == token.QUO {
				return c.UDiv(a, b), nil
			}
			return c.URem(a, b), nil
		case token.AND:
			return c.BAnd(a, b), nil
		case token.OR:
			return c.BOr(a, b), nil
		case token.XOR:
			return c.BXor(a, b), nil
		case token.AND_NOT:
			return c.BAnd(a, c.BNot(b)), nil
		case token.SHL, token.SHR:
			w := a.sort.W
			amt := b
			if b.sort.W > w {
				lim := c.BVConst(uint64(w), b.sort.W)
				amt = c.Ite(c.Ult(b, lim), c.Extract(b, w-1, 0), c.BVConst(uint64(w), w))
			} else if b.sort.W < w {
				amt = c.ZExt(b, w)
			}
			if op == token.SHL {
				return c.Shl(a, amt), nil
			}
			if signed {
				return c.Ashr(a, amt), nil
			}
			return c.Lshr(a, amt), nil
		case token.EQL:
			return c.Eq(a, b), nil
		case token.NEQ:
			return c.Not(c.Eq(a, b)), nil
		case token.LSS:
			if signed {
				return c.Slt(a, b), nil
			}
			return c.Ult(a, b), nil
		case token.LEQ:
			if signed {
				return c.Sle(a, b), nil
			}
			return c.Ule(a, b), nil
		case token.GTR:
			if signed {
				return c.Slt(b, a), nil
			}
			return c.Ult(b, a), nil
		case token.GEQ:
			if signed {
				return c.Sle(b, a), nil
			}
			return c.Ule(b, a), nil
		}
		ex.unsupported("int binop %v", op)
	case StringV:
		b := y.(StringV)
		switch op {
		case token.ADD:
			return ex.strConcat(a, b), nil
		case token.EQL:
			return ex.regionEq(ex.stringRegion(a), ex.stringRegion(b)), nil
		case token.NEQ:
			return c.Not(ex.regionEq(ex.stringRegion(a), ex.stringRegion(b))), nil
		}
		ex.unsupported("string binop %v", op)
	default:
		switch op {
		case token.EQL:
			return ex.valueEq(x, y), nil
		case token.NEQ:
			return c.Not(ex.valueEq(x, y)), nil
		}
		ex.unsupported("binop %v on %T", op, x)
	}
	return nil, nil
}

func (ex *Exec) strConcat(a, b StringV) StringV {
	c := ex.ctx
	if isZero(a.len) {
		return b
	}
	if isZero(b.len) {
		return a
	}
	n := ex.copyNode(a.node, a.len, b.node, c64(c, 0), b.len)
	return StringV{n, c.Add(a.len, b.len)}
}

func ptrEq(c *Ctx, a, b Ptr) *Term {
	if a.obj != b.obj {
		return c.Bool(false)
	}
	if a.obj == nil {
		return c.Bool(true)
	}
	if len(a.path) != len(b.path) {
		return c.Bool(false)
	}
	r := c.Bool(true)
	for k := range a.path {
		sa, sb := a.path[k], b.path[k]
		if sa.kind != sb.kind {
			return c.Bool(false)
		}
		switch sa.kind {
		case 0:
			if sa.field != sb.field {
				return c.Bool(false)
			}
		default:
			r = c.And(r, c.Eq(sa.idx, sb.idx))
		}
	}
	return r
}

func (ex *Exec) valueEq(x, y Value) *Term {
	c := ex.ctx
	switch a := x.(type) {
	case *Term:
		b, ok := y.(*Term)
		if !ok || a.sort != b.sort {
			return c.Bool(false)
		}
		return c.Eq(a, b)
	case Ptr:
		b, ok := y.(Ptr)
		if !ok {
			return c.Bool(false)
		}
		return ptrEq(c, a, b)
	case IfaceV:
		b, ok := y.(IfaceV)
		if !ok {
			ex.unsupported("iface == %T", y)
		}
		if a.typ == nil || b.typ == nil {
			return c.Bool(a.typ == nil && b.typ == nil)
		}
		if !sameType(a.typ, b.typ) {
			return c.Bool(false)
		}
		return ex.valueEq(a.val, b.val)
	case StringV:
		b, ok := y.(StringV)
		if !ok {
			return c.Bool(false)
		}
		return ex.regionEq(ex.stringRegion(a), ex.stringRegion(b))
	case SliceV:
		// only comparison with nil is legal
		b := y.(SliceV)
		if b.IsNil() {
			return c.Bool(a.IsNil())
		}
		if a.IsNil() {
			return c.Bool(b.IsNil())
		}
		ex.unsupported("slice comparison")
	case MapV:
		b := y.(MapV)
		return c.Bool(a.m == b.m)
	case ChanV:
		b := y.(ChanV)
		return c.Bool(a.c == b.c)
	case FuncV:
		b := y.(FuncV)
		if b.fn == nil && b.builtin == nil {
			return c.Bool(a.fn == nil && a.builtin == nil)
		}
		if a.fn == nil && a.builtin == nil {
			return c.Bool(false)
		}
		ex.unsupported("func comparison")
	case *StructV:
		b, ok := y.(*StructV)
		if !ok || len(a.fields) != len(b.fields) {
			return c.Bool(false)
		}
		r := c.Bool(true)
		for k := range a.fields {
			r = c.And(r, ex.valueEq(a.fields[k], b.fields[k]))
		}
		return r
	case BytesV:
		b := y.(BytesV)
		return ex.regionEq(Region{a.node, c64(c, 0), a.n}, Region{b.node, c64(c, 0), b.n})
	case *ArrayV:
		b := y.(*ArrayV)
		r := c.Bool(true)
		for k := range a.elems {
			r = c.And(r, ex.valueEq(a.elems[k], b.elems[k]))
		}
		return r
	case *ModelObj:
		b, ok := y.(*ModelObj)
		return c.Bool(ok && a == b)
	}
	ex.unsupported("valueEq on %T", x)
	return nil
}

func sameType(a, b types.Type) bool {
	ma, ok1 := a.(*modelType)
	mb, ok2 := b.(*modelType)
	if ok1 || ok2 {
		return ok1 && ok2 && ma.name == mb.name
	}
	return types.Identical(a, b)
}

// upperBound finds a (power-of-two-ish) upper bound of an unsigned BV64 term under the PC.
func (ex *Exec) upperBound(t *Term) uint64 {
	if t.isConst {
		return t.cv
	}
	if ex.ubCache == nil {
		ex.ubCache = map[int]uint64{}
	}
	if v, ok := ex.ubCache[t.id]; ok {
		return v
	}
	c := ex.ctx
	for _, b := range []uint64{4, 16, 64, 256, 1024, 4096, 16384, 65536 + 1024, 1 << 20} {
		if ex.feasible(c.Ult(c64(c, b), t)) == Unsat {
			ex.ubCache[t.id] = b
			return b
		}
	}
	ex.unsupported("no upper bound for length term")
	return 0
}

// hashProv classifies a byte term: exact = it is exactly one byte of an (ideal) hash output
// variable; derived = it mentions a hash output variable in some other way; else free.
func hashProv(t *Term, memo map[int]bool) (v *Term, lo int, exact bool, derived bool) {
	if t.op == "extract" && t.args[0].op == "var" && strings.HasPrefix(t.args[0].name, "h_") && t.p1-t.p2 == 7 {
		return t.args[0], t.p2, true, true
	}
	return nil, 0, false, mentionsHash(t, memo)
}

func mentionsHash(t *Term, memo map[int]bool) bool {
	if r, ok := memo[t.id]; ok {
		return r
	}
	r := false
	if t.op == "var" && strings.HasPrefix(t.name, "h_") {
		r = true
	} else {
		for _, a := range t.args {
			if mentionsHash(a, memo) {
				r = true
				break
			}
		}
	}
	memo[t.id] = r
	return r
}

// idealMismatch (random-oracle assumption, only when a harness declared verifrt.Ideal()):
// a run of >= 8 consecutive bytes of one hash/MAC output cannot coincide with bytes that
// are themselves derived from hash outputs unless they are the same bytes of one output
// variable at the same positions (then ordinary equality decides), nor with a constant
// string, nor with honest fresh randomness (csrand padding). Bytes that are free (attacker
// chosen) are left to the solver.
func (ex *Exec) idealMismatch(as, bs []*Term) bool {
	memo := map[int]bool{}
	check := func(xs, ys []*Term) bool {
		// xs must be consecutive exact bytes of one variable (big-endian order: descending lo)
		v0, lo0, ex0, _ := hashProv(xs[0], memo)
		if !ex0 {
			return false
		}
		for i, x := range xs {
			v, lo, e, _ := hashProv(x, memo)
			if !e || v != v0 || lo != lo0-8*i {
				return false
			}
		}
		// a run of >= 8 consecutive bytes of a hash/MAC output never equals a fixed constant
		// string, nor honest fresh randomness (csrand / crypto/rand bytes, which no party
		// chooses): negligible probability
		runC, runR := 0, 0
		for _, y := range ys {
			if y.isConst {
				runC++
			} else {
				runC = 0
			}
			if y.op == "select" && y.args[0].op == "var" && strings.HasPrefix(y.args[0].name, "rnd!") {
				runR++
			} else {
				runR = 0
			}
			if runC >= 8 || runR >= 8 {
				return true
			}
		}
		// a byte read at a symbolic position (an ite over candidate bytes) may well be the
		// aligned byte itself: the rule does not apply, the solver decides
		for _, y := range ys {
			if y.op == "ite" {
				return false
			}
		}
		anyDerived := false
		aligned := true
		var w0 *Term
		for i, y := range ys {
			v, lo, e, d := hashProv(y, memo)
			if d {
				anyDerived = true
			}
			if !e || lo != lo0-8*i {
				aligned = false
			} else if w0 == nil {
				w0 = v
			} else if v != w0 {
				aligned = false
			}
		}
		return anyDerived && !aligned
	}
	return check(as, bs) || check(bs, as)
}

// regionEq builds the boolean "regions have equal length and content".
func (ex *Exec) regionEq(a, b Region) *Term {
	c := ex.ctx
	if a.node == b.node && a.off == b.off && a.n == b.n {
		return c.Bool(true)
	}
	lenEq := c.Eq(a.n, b.n)
	if lenEq.IsFalse() {
		return lenEq
	}
	var n uint64
	var guardLen *Term
	switch {
	case a.n.isConst:
		n = a.n.cv
	case b.n.isConst:
		n = b.n.cv
	default:
		n = ex.upperBound(a.n)
		guardLen = a.n
	}
	if n > uint64(ex.eng.maxRegionCmp) {
		ex.unsupported("region comparison over %d bytes", n)
	}
	parts := []*Term{lenEq}
	if guardLen == nil && ex.ideal() && n >= 8 {
		as := make([]*Term, n)
		bs := make([]*Term, n)
		for i := uint64(0); i < n; i++ {
			as[i], bs[i] = ex.regAt(a, c64(c, i)), ex.regAt(b, c64(c, i))
		}
		if ex.idealMismatch(as, bs) {
			return c.Bool(false)
		}
	}
	for i := uint64(0); i < n; i++ {
		it := c64(c, i)
		e := c.Eq(ex.regAt(a, it), ex.regAt(b, it))
		if guardLen != nil {
			e = c.Or(c.Ule(guardLen, it), e)
		}
		parts = append(parts, e)
	}
	return c.And(parts...)
}

// ---------- index / slice ----------

func (ex *Exec) indexAddr(fr *Frame, i *ssa.IndexAddr) *PanicV {
	c := ex.ctx
	x := ex.get(fr, i.X)
	idx := ex.to64(ex.term(fr, i.Index), isSigned(i.Index.Type()))
	switch a := x.(type) {
	case SliceV:
		if pan := ex.rtCheck(c.Ult(idx, a.len), "index out of range"); pan != nil {
			return pan
		}
		fr.env[i] = a.base.index(c.Add(a.off, idx))
	case Ptr:
		if a.IsNil() {
			return ex.rtPanic("invalid memory address or nil pointer dereference")
		}
		at := i.X.Type().Underlying().(*types.Pointer).Elem().Underlying().(*types.Array)
		if pan := ex.rtCheck(c.Ult(idx, c64(c, uint64(at.Len()))), "index out of range"); pan != nil {
			return pan
		}
		if len(a.path) > 0 && a.path[len(a.path)-1].kind == 2 {
			// pointer to a window: fold into an index on the parent
			w := a.path[len(a.path)-1]
			parent := Ptr{a.obj, a.path[:len(a.path)-1]}
			fr.env[i] = parent.index(c.Add(w.idx, idx))
		} else {
			fr.env[i] = a.index(idx)
		}
	default:
		ex.unsupported("IndexAddr on %T", x)
	}
	return nil
}

func (ex *Exec) sliceOp(fr *Frame, i *ssa.Slice) *PanicV {
	c := ex.ctx
	x := ex.get(fr, i.X)
	var lo, hi, max *Term
	if i.Low != nil {
		lo = ex.to64(ex.term(fr, i.Low), isSigned(i.Low.Type()))
	}
	if i.High != nil {
		hi = ex.to64(ex.term(fr, i.High), isSigned(i.High.Type()))
	}
	if i.Max != nil {
		max = ex.to64(ex.term(fr, i.Max), isSigned(i.Max.Type()))
	}
	zero := c64(c, 0)
	if lo == nil {
		lo = zero
	}
	switch a := x.(type) {
	case StringV:
		if hi == nil {
			hi = a.len
		}
		if pan := ex.rtCheck(c.And(c.Ule(hi, a.len), c.Ule(lo, hi)), "slice bounds out of range"); pan != nil {
			return pan
		}
		fr.env[i] = StringV{ex.shiftNode(a.node, lo), c.Sub(hi, lo)}
	case SliceV:
		if hi == nil {
			hi = a.len
		}
		capT := a.cap
		if max == nil {
			max = capT
		}
		ok := c.And(c.Ule(max, capT), c.Ule(hi, max), c.Ule(lo, hi))
		if pan := ex.rtCheck(ok, "slice bounds out of range"); pan != nil {
			return pan
		}
		if a.IsNil() {
			fr.env[i] = a
			return nil
		}
		fr.env[i] = SliceV{base: a.base, off: c.Add(a.off, lo), len: c.Sub(hi, lo), cap: c.Sub(max, lo)}
	case Ptr:
		if a.IsNil() {
			return ex.rtPanic("invalid memory address or nil pointer dereference")
		}
		at := i.X.Type().Underlying().(*types.Pointer).Elem().Underlying().(*types.Array)
		n := c64(c, uint64(at.Len()))
		if hi == nil {
			hi = n
		}
		if max == nil {
			max = n
		}
		ok := c.And(c.Ule(max, n), c.Ule(hi, max), c.Ule(lo, hi))
		if pan := ex.rtCheck(ok, "slice bounds out of range"); pan != nil {
			return pan
		}
		base := a
		off := lo
		if len(a.path) > 0 && a.path[len(a.path)-1].kind == 2 {
			w := a.path[len(a.path)-1]
			base = Ptr{a.obj, a.path[:len(a.path)-1]}
			off = c.Add(w.idx, lo)
		}
		fr.env[i] = SliceV{base: base, off: off, len: c.Sub(hi, lo), cap: c.Sub(max, lo)}
	default:
		ex.unsupported("Slice on %T", x)
	}
	return nil
}

func (ex *Exec) makeSlice(fr *Frame, i *ssa.MakeSlice) *PanicV {
	c := ex.ctx
	ln := ex.to64(ex.term(fr, i.Len), isSigned(i.Len.Type()))
	cp := ex.to64(ex.term(fr, i.Cap), isSigned(i.Cap.Type()))
	lim := c64(c, 1<<40)
	if pan := ex.rtCheck(c.Ult(ln, lim), "makeslice: len out of range"); pan != nil {
		return pan
	}
	if pan := ex.rtCheck(c.And(c.Ult(cp, lim), c.Ule(ln, cp)), "makeslice: cap out of range"); pan != nil {
		return pan
	}
	st := i.Type().Underlying().(*types.Slice)
	if isByte(st.Elem()) {
		fr.env[i] = ex.newByteSlice(ex.zeroNode(), ln, cp)
		return nil
	}
	n := ex.concretize(cp, ex.eng.maxConcretize, "make cap")
	es := make([]Value, n)
	for k := range es {
		es[k] = ex.zeroValue(st.Elem())
	}
	o := ex.newObj(&ArrayV{es}, "slice")
	fr.env[i] = SliceV{base: Ptr{obj: o}, off: c64(c, 0), len: ln, cap: cp}
	return nil
}

// ---------- conversions ----------

func (ex *Exec) convert(x Value, from, to types.Type) (Value, *PanicV) {
	c := ex.ctx
	fu, tu := from.Underlying(), to.Underlying()
	switch {
	case isInteger(tu) && isInteger(fu):
		t := x.(*Term)
		tw := intWidth(tu)
		if isSigned(fu) {
			return c.SExt(t, tw), nil
		}
		return c.ZExt(t, tw), nil
	case isFloat(tu) && isInteger(fu):
		t := x.(*Term)
		if t.isConst {
			if isSigned(fu) {
				return c.RealConst(new(big.Rat).SetInt64(t.Int())), nil
			}
			return c.RealConst(new(big.Rat).SetInt(t.BigVal())), nil
		}
		// symbolic int -> real via UF-free encoding: to_real(bv2nat)
		return c.intern(&Term{op: "bv2real", sort: RealSort, args: []*Term{t}, p1: boolInt(isSigned(fu))}), nil
	case isFloat(tu) && isFloat(fu):
		return x, nil
	case isInteger(tu) && isFloat(fu):
		t := x.(*Term)
		if t.isConst {
			f := new(big.Int).Quo(t.crat.Num(), t.crat.Denom())
			return c.BVBig(f, intWidth(tu)), nil
		}
		// floor for non-negative reals via fresh variable
		w := intWidth(tu)
		r := c.Fresh("ftoi", BV(w))
		rr := c.intern(&Term{op: "bv2real", sort: RealSort, args: []*Term{r}, p1: 0})
		ex.addAxiom(c.And(c.RLe(rr, t), c.RLt(t, c.RAdd(rr, c.RealConst(big.NewRat(1, 1))))))
		ex.res.Notes = append(ex.res.Notes, "float->int conversion modelled as floor of a non-negative real")
		return r, nil
	case isString(tu) && isByteSlice(fu):
		s := x.(SliceV)
		r := ex.sliceRegion(s)
		return StringV{ex.shiftNode(r.node, r.off), r.n}, nil
	case isByteSlice(tu) && isString(fu):
		s := x.(StringV)
		return ex.newByteSlice(s.node, s.len, s.len), nil
	case isString(tu) && isInteger(fu):
		t := x.(*Term)
		if t.isConst && t.cv < 0x80 {
			return ex.mkString(string(rune(t.cv))), nil
		}
		ex.unsupported("string(int) of symbolic value")
	case isString(tu) && isString(fu):
		return x, nil
	}
	if _, ok := tu.(*types.Pointer); ok {
		return x, nil
	}
	if b, ok := tu.(*types.Basic); ok && b.Kind() == types.UnsafePointer {
		return x, nil
	}
	if _, ok := tu.(*types.Slice); ok {
		if _, ok2 := fu.(*types.Slice); ok2 {
			return x, nil
		}
	}
	ex.unsupported("convert %v -> %v", from, to)
	return nil, nil
}

func boolInt(b bool) int {
	if b {
		return 1
	}
	return 0
}

// ---------- type assertion ----------

func (ex *Exec) implements(dyn types.Type, val Value, iface *types.Interface) bool {
	if mt, ok := dyn.(*modelType); ok {
		return modelImplements(mt, iface)
	}
	return types.Implements(dyn, iface)
}

func (ex *Exec) typeAssert(fr *Frame, i *ssa.TypeAssert) *PanicV {
	c := ex.ctx
	iv, ok := ex.get(fr, i.X).(IfaceV)
	if !ok {
		ex.unsupported("typeassert on %T", ex.get(fr, i.X))
	}
	okv := false
	var res Value
	if iv.typ != nil {
		if it, isI := i.AssertedType.Underlying().(*types.Interface); isI {
			if ex.implements(iv.typ, iv.val, it) {
				okv = true
				res = iv
			}
		} else if sameType(iv.typ, i.AssertedType) {
			okv = true
			res = iv.val
		}
	}
	if i.CommaOk {
		if !okv {
			res = ex.zeroValue(i.AssertedType)
		}
		fr.env[i] = TupleV{res, c.Bool(okv)}
		return nil
	}
	if !okv {
		return ex.rtPanic(fmt.Sprintf("interface conversion: %v is not %v", iv.typ, i.AssertedType))
	}
	fr.env[i] = res
	return nil
}

// ---------- maps ----------

func (ex *Exec) mapFind(m *MapObj, key Value) int {
	for k, e := range m.entries {
		if ex.branch(ex.valueEq(e.key, key)) {
			return k
		}
	}
	return -1
}

func (ex *Exec) mapUpdate(m *MapObj, key, val Value) {
	k := ex.mapFind(m, key)
	if k >= 0 {
		m.entries[k].val = val
		return
	}
	m.entries = append(m.entries, MapEntry{key, val})
}

func (ex *Exec) mapDelete(m *MapObj, key Value) {
	k := ex.mapFind(m, key)
	if k >= 0 {
		ne := make([]MapEntry, 0, len(m.entries)-1)
		ne = append(ne, m.entries[:k]...)
		ne = append(ne, m.entries[k+1:]...)
		m.entries = ne
	}
}

func (ex *Exec) lookup(fr *Frame, i *ssa.Lookup) *PanicV {
	c := ex.ctx
	x := ex.get(fr, i.X)
	switch a := x.(type) {
	case StringV:
		idx := ex.to64(ex.term(fr, i.Index), isSigned(i.Index.Type()))
		if pan := ex.rtCheck(c.Ult(idx, a.len), "index out of range"); pan != nil {
			return pan
		}
		fr.env[i] = ex.sel(a.node, idx)
	case MapV:
		vt := i.X.Type().Underlying().(*types.Map).Elem()
		var v Value
		found := false
		if a.m != nil {
			k := ex.mapFind(a.m, ex.get(fr, i.Index))
			if k >= 0 {
				v = a.m.entries[k].val
				found = true
			}
		}
		if !found {
			v = ex.zeroValue(vt)
		}
		if i.CommaOk {
			fr.env[i] = TupleV{v, c.Bool(found)}
		} else {
			fr.env[i] = v
		}
	default:
		ex.unsupported("lookup on %T", x)
	}
	return nil
}

// ---------- builtins ----------

func (ex *Exec) callBuiltin(b *ssa.Builtin, args []Value, site ssa.Instruction) (Value, *PanicV) {
	c := ex.ctx
	switch b.Name() {
	case "len":
		switch a := args[0].(type) {
		case SliceV:
			return a.len, nil
		case StringV:
			return a.len, nil
		case MapV:
			if a.m == nil {
				return c64(c, 0), nil
			}
			return c64(c, uint64(len(a.m.entries))), nil
		case ChanV:
			if a.c == nil {
				return c64(c, 0), nil
			}
			ex.envHook("chanlen")
			return c64(c, uint64(len(a.c.buf))), nil
		case Ptr:
			// pointer to array
			v := ex.load(a)
			switch av := v.(type) {
			case BytesV:
				return av.n, nil
			case *ArrayV:
				return c64(c, uint64(len(av.elems))), nil
			}
		case BytesV:
			return a.n, nil
		case *ArrayV:
			return c64(c, uint64(len(a.elems))), nil
		}
		ex.unsupported("len of %T", args[0])
	case "cap":
		switch a := args[0].(type) {
		case SliceV:
			return a.cap, nil
		case ChanV:
			return c64(c, uint64(a.c.cap)), nil
		}
		ex.unsupported("cap of %T", args[0])
	case "append":
		return ex.appendOp(args[0].(SliceV), args[1], b, site)
	case "copy":
		dst := args[0].(SliceV)
		var srcLen *Term
		switch s := args[1].(type) {
		case SliceV:
			srcLen = s.len
		case StringV:
			srcLen = s.len
		}
		n := c.Ite(c.Ult(dst.len, srcLen), dst.len, srcLen)
		if isZero(n) {
			return n, nil
		}
		switch s := args[1].(type) {
		case SliceV:
			if s.IsNil() || dst.IsNil() {
				return c64(c, 0), nil
			}
			if _, isB := ex.load(dst.base).(BytesV); isB {
				ex.writeBytes(dst, c64(c, 0), ex.sliceRegion(s), n)
			} else {
				cnt := ex.concretize(n, ex.eng.maxConcretize, "copy length")
				so := ex.concretize(s.off, ex.eng.maxConcretize, "slice off")
				do := ex.concretize(dst.off, ex.eng.maxConcretize, "slice off")
				sa := ex.load(s.base).(*ArrayV)
				tmp := make([]Value, cnt)
				copy(tmp, sa.elems[so:so+cnt])
				da := ex.load(dst.base).(*ArrayV)
				es := make([]Value, len(da.elems))
				copy(es, da.elems)
				copy(es[do:do+cnt], tmp)
				ex.store(dst.base, &ArrayV{es})
			}
		case StringV:
			if dst.IsNil() {
				return c64(c, 0), nil
			}
			ex.writeBytes(dst, c64(c, 0), ex.stringRegion(s), n)
		}
		return n, nil
	case "delete":
		m := args[0].(MapV)
		if m.m != nil {
			ex.mapDelete(m.m, args[1])
		}
		return nil, nil
	case "close":
		ch := args[0].(ChanV)
		if ch.c == nil {
			return nil, ex.rtPanic("close of nil channel")
		}
		if ch.c.closed {
			return nil, &PanicV{runtime: true, msg: "close of closed channel", site: ex.frame.fn.String()}
		}
		ch.c.closed = true
		ex.envHook("close")
		return nil, nil
	case "recover":
		// the frame running deferred calls is the caller of the deferred function
		fr := ex.frame
		if fr != nil && fr.caller != nil && fr.caller.panicV != nil {
			p := fr.caller.panicV
			fr.caller.panicV = nil
			if p.val != nil {
				return p.val, nil
			}
			return IfaceV{typ: &modelType{"runtime.Error"}, val: &ModelObj{kind: "runtimeError", state: map[string]Value{"msg": ex.mkString(p.msg)}}}, nil
		}
		return IfaceV{}, nil
	case "print", "println":
		return nil, nil
	case "min", "max":
		r := args[0].(*Term)
		signed := true
		if cs, ok := site.(*ssa.Call); ok {
			signed = isSigned(cs.Type())
		}
		for _, a := range args[1:] {
			t := a.(*Term)
			var lt *Term
			if signed {
				lt = c.Slt(t, r)
			} else {
				lt = c.Ult(t, r)
			}
			if b.Name() == "max" {
				lt = c.Not(lt)
				if t == r {
					continue
				}
			}
			r = c.Ite(lt, t, r)
		}
		return r, nil
	case "ssa:wrapnilchk":
		p := args[0].(Ptr)
		if p.IsNil() {
			return nil, ex.rtPanic("value method called using nil pointer")
		}
		return p, nil
	}
	ex.unsupported("builtin %s", b.Name())
	return nil, nil
}

func (ex *Exec) appendOp(s SliceV, more Value, b *ssa.Builtin, site ssa.Instruction) (Value, *PanicV) {
	c := ex.ctx
	var addLen *Term
	var srcReg Region
	var srcSlice SliceV
	isStr := false
	switch m := more.(type) {
	case SliceV:
		addLen = m.len
		srcSlice = m
	case StringV:
		addLen = m.len
		srcReg = ex.stringRegion(m)
		isStr = true
	default:
		ex.unsupported("append of %T", more)
	}
	if isZero(addLen) {
		return s, nil
	}
	// determine element kind
	isBytes := isStr
	if !isBytes {
		if cs, ok := site.(*ssa.Call); ok {
			isBytes = isByteSlice(cs.Type())
		} else if !srcSlice.IsNil() {
			_, isBytes = ex.load(srcSlice.base).(BytesV)
		}
	}
	newLen := c.Add(s.len, addLen)
	if isBytes {
		if !isStr {
			srcReg = ex.sliceRegion(srcSlice)
		}
		fits := c.Ule(newLen, s.cap)
		if !s.IsNil() && ex.branch(fits) {
			ex.writeBytes(SliceV{base: s.base, off: s.off, len: newLen, cap: s.cap}, s.len, srcReg, addLen)
			return SliceV{base: s.base, off: s.off, len: newLen, cap: s.cap}, nil
		}
		old := ex.sliceRegion(s)
		node := ex.shiftNode(old.node, old.off)
		node = ex.copyNode(node, s.len, srcReg.node, srcReg.off, addLen)
		return ex.newByteSlice(node, newLen, newLen), nil
	}
	// generic elements: concrete sizes
	ol := ex.concretize(s.len, ex.eng.maxConcretize, "slice len")
	al := ex.concretize(addLen, ex.eng.maxConcretize, "append len")
	so := ex.concretize(srcSlice.off, ex.eng.maxConcretize, "slice off")
	src := ex.load(srcSlice.base).(*ArrayV)
	oc := 0
	if !s.IsNil() {
		oc = ex.concretize(s.cap, ex.eng.maxConcretize*4, "slice cap")
	}
	if !s.IsNil() && ol+al <= oc {
		do := ex.concretize(s.off, ex.eng.maxConcretize, "slice off")
		da := ex.load(s.base).(*ArrayV)
		es := make([]Value, len(da.elems))
		copy(es, da.elems)
		copy(es[do+ol:do+ol+al], src.elems[so:so+al])
		ex.store(s.base, &ArrayV{es})
		return SliceV{base: s.base, off: s.off, len: c64(c, uint64(ol+al)), cap: s.cap}, nil
	}
	es := make([]Value, ol+al)
	if ol > 0 {
		do := ex.concretize(s.off, ex.eng.maxConcretize, "slice off")
		da := ex.load(s.base).(*ArrayV)
		copy(es, da.elems[do:do+ol])
	}
	copy(es[ol:], src.elems[so:so+al])
	o := ex.newObj(&ArrayV{es}, "append")
	n := c64(c, uint64(ol+al))
	return SliceV{base: Ptr{obj: o}, off: c64(c, 0), len: n, cap: n}, nil
}

// ---------- channels (sequential model with environment hook) ----------

func (ex *Exec) envHook(what string) {
	if ex.h == nil || ex.envDepth > 0 {
		return
	}
	cb, ok := ex.st["env"].(Value)
	if !ok || cb == nil {
		return
	}
	if len(ex.h.EnvAt) > 0 {
		found := false
		for _, w := range ex.h.EnvAt {
			if w == what {
				found = true
			}
		}
		if !found {
			return
		}
	}
	ex.envDepth++
	_, pan := ex.callAny(cb, nil, nil)
	ex.envDepth--
	if pan != nil {
		ex.reportPanic(pan, "environment callback")
		panic(pathEnd{kind: "done", msg: "panic in environment"})
	}
}

func (ex *Exec) blocked(what string) {
	if cb, ok := ex.st["onblocked"].(Value); ok && cb != nil && ex.envDepth == 0 {
		ex.st["blocked_reason"] = what
		ex.envDepth++
		_, pan := ex.callAny(cb, nil, nil)
		ex.envDepth--
		if pan != nil {
			ex.reportPanic(pan, "OnBlocked callback")
		}
	}
	panic(pathEnd{kind: "blocked", msg: what})
}

func (ex *Exec) chanSend(ch ChanV, v Value) *PanicV {
	if ch.c == nil {
		ex.blocked("send on nil channel")
	}
	ex.envHook("send")
	if ch.c.closed {
		return &PanicV{runtime: true, msg: "send on closed channel", site: ex.frame.fn.String()}
	}
	if len(ch.c.buf) < ch.c.cap || (ch.c.cap == 0 && ex.envDepth > 0 && len(ch.c.buf) == 0) {
		// (an unbuffered send from the environment rendezvouses with the waiting receiver)
		ch.c.buf = append(ch.c.buf, v)
		return nil
	}
	// give the environment a chance to drain
	ex.blocked("send on full channel")
	return nil
}

func (ex *Exec) chanRecv(ch ChanV, t types.Type, commaOk bool) (Value, *Term, *PanicV) {
	c := ex.ctx
	if ch.c == nil {
		ex.blocked("receive from nil channel")
	}
	ex.envHook("recv")
	if len(ch.c.buf) > 0 {
		v := ch.c.buf[0]
		ch.c.buf = ch.c.buf[1:]
		return v, c.Bool(true), nil
	}
	if ch.c.closed {
		var et types.Type = ch.c.elem
		return ex.zeroValue(et), c.Bool(false), nil
	}
	ex.blocked("receive on empty channel")
	return nil, nil, nil
}

func (ex *Exec) selectStmt(fr *Frame, i *ssa.Select) *PanicV {
	c := ex.ctx
	ex.envHook("select")
	// collect ready cases
	var ready []int
	for k, st := range i.States {
		ch := ex.get(fr, st.Chan).(ChanV)
		if ch.c == nil {
			continue
		}
		if st.Dir == types.RecvOnly {
			if len(ch.c.buf) > 0 || ch.c.closed {
				ready = append(ready, k)
			}
		} else {
			if ch.c.closed || len(ch.c.buf) < ch.c.cap {
				ready = append(ready, k)
			}
		}
	}
	// timers: channels created by the time.After model are flagged "timer": they may fire at any time
	for k, st := range i.States {
		ch := ex.get(fr, st.Chan).(ChanV)
		if ch.c != nil && ch.c.name == "timer" && len(ch.c.buf) == 0 && st.Dir == types.RecvOnly {
			ready = append(ready, k)
		}
	}
	sort.Ints(ready)
	chosen := -1
	if len(ready) == 0 {
		if !i.Blocking {
			chosen = -1
		} else {
			ex.blocked("select with no ready case")
		}
	} else if len(ready) == 1 {
		chosen = ready[0]
	} else {
		// nondeterministic choice among ready cases
		ch := c.Fresh("select", BV(8))
		ex.addAxiom(c.Ult(ch, c.BVConst(uint64(len(ready)), 8)))
		k := ex.concretize(ch, len(ready), "select choice")
		chosen = ready[k]
	}
	// build result tuple: (index int, recvOk bool, recv_0, ..., recv_n-1)
	res := TupleV{c64(c, uint64(int64(chosen))), c.Bool(false)}
	if chosen < 0 {
		res[0] = c.BVConst(^uint64(0), 64)
	}
	for k, st := range i.States {
		if st.Dir != types.RecvOnly {
			continue
		}
		ch := ex.get(fr, st.Chan).(ChanV)
		var rv Value
		if k == chosen {
			if len(ch.c.buf) > 0 {
				rv = ch.c.buf[0]
				ch.c.buf = ch.c.buf[1:]
				res[1] = c.Bool(true)
			} else if ch.c.name == "timer" && !ch.c.closed {
				rv = ex.zeroValue(ch.c.elem)
				res[1] = c.Bool(true)
			} else {
				rv = ex.zeroValue(ch.c.elem)
			}
		} else {
			var et types.Type
			if ch.c != nil {
				et = ch.c.elem
			} else {
				et = st.Chan.Type().Underlying().(*types.Chan).Elem()
			}
			rv = ex.zeroValue(et)
		}
		res = append(res, rv)
	}
	if chosen >= 0 && i.States[chosen].Dir == types.SendOnly {
		st := i.States[chosen]
		ch := ex.get(fr, st.Chan).(ChanV)
		if ch.c.closed {
			return &PanicV{runtime: true, msg: "send on closed channel", site: fr.fn.String()}
		}
		ch.c.buf = append(ch.c.buf, ex.get(fr, st.Send))
	}
	fr.env[i] = res
	return nil
}

func (ex *Exec) reportPanic(pan *PanicV, where string) {
	v := &Violation{Harness: ex.h.Name, Kind: "panic", Label: pan.msg, Site: pan.site}
	ex.fillModel(v, nil)
	ex.res.Violations = append(ex.res.Violations, v)
}

func trimPkg(s string) string {
	return strings.TrimPrefix(s, "gitlab.com/yawning/obfs4.git/")
}
