package main

import (
	"os"
	"golang.org/x/tools/go/ssa"
)

// indexModel: exact first-occurrence semantics of bytes.Index, expanded over the
// (bounded) haystack length: r == i -> match(i); (r == -1 or i < r) -> no match at i.
func (ex *Exec) indexModel(hay, sep Region) *Term {
	c := ex.ctx
	if !sep.n.isConst {
		ex.unsupported("bytes.Index with symbolic needle length")
	}
	m := sep.n.cv
	if m == 0 {
		return c64(c, 0)
	}
	ub := ex.upperBound(hay.n)
	r := c.Fresh("idx", BV(64))
	minus1 := c.BVConst(^uint64(0), 64)
	notFound := c.Eq(r, minus1)
	if ub < m {
		return minus1
	}
	var cons []*Term
	var anyMatch []*Term
	for i := uint64(0); i+m <= ub; i++ {
		it := c64(c, i)
		inRange := c.Ule(c64(c, i+m), hay.n)
		var eqs []*Term
		var hs, ss []*Term
		for j := uint64(0); j < m; j++ {
			h, s := ex.regAt(hay, c64(c, i+j)), ex.regAt(sep, c64(c, j))
			hs, ss = append(hs, h), append(ss, s)
			eqs = append(eqs, c.Eq(h, s))
		}
		match := c.And(append(eqs, inRange)...)
		if ex.ideal() && m >= 8 && ex.idealMismatch(hs, ss) {
			match = c.Bool(false)
		}
		isR := c.Eq(r, it)
		anyMatch = append(anyMatch, isR)
		cons = append(cons, c.Implies(isR, match))
		cons = append(cons, c.Implies(c.And(c.Or(notFound, c.Ult(it, r)), inRange), c.Not(match)))
	}
	cons = append(cons, c.Or(append(anyMatch, notFound)...))
	ex.addAxiom(c.And(cons...))
	if v, ok := ex.uniqueValue(r); ok {
		return v
	}
	return r
}

// uniqueValue asks the solver whether t has exactly one possible value under the path
// condition; if so the constant is returned (and t == const becomes part of the PC).
// The outcome is a recorded decision of the path (0 = left symbolic, v+2 = concretised to the
// signed value v), so that a re-execution from a decision prefix follows exactly the same
// branches even when the solver's answer would differ this time (time-outs under load).
func (ex *Exec) uniqueValue(t *Term) (*Term, bool) {
	c := ex.ctx
	if t.isConst {
		return t, true
	}
	if ex.pos < len(ex.prefix) {
		d := ex.prefix[ex.pos]
		ex.pos++
		ex.trace = append(ex.trace, d)
		if d == 0 {
			return nil, false
		}
		k := c.BVConst(uint64(int64(d-2)), t.sort.W)
		ex.addPC(c.Eq(t, k))
		return k, true
	}
	k, ok := (*Term)(nil), false
	if os.Getenv("VERIF_NOUNIQUE") == "" {
		k, ok = ex.uniqueValueSolve(t)
	}
	if ok && t.sort.W <= 64 {
		v := int64(k.cv)
		if t.sort.W < 64 {
			v = int64(k.cv << (64 - uint(t.sort.W))) >> (64 - uint(t.sort.W))
		}
		if v >= -1 && v < 1<<40 {
			ex.trace = append(ex.trace, int(v)+2)
			ex.addPC(c.Eq(t, k))
			return k, true
		}
	}
	ex.trace = append(ex.trace, 0)
	return nil, false
}

func (ex *Exec) uniqueValueSolve(t *Term) (*Term, bool) {
	c := ex.ctx
	q := c.Script(ex.pc, []*Term{t})
	if ex.pool.Check(q, ex.eng.branchMs, ex.eng.branchSlowMs) != Sat {
		return nil, false
	}
	vals, err := ex.pool.GetValues([]string{c.Inline(t)})
	if err != nil {
		return nil, false
	}
	bv, ok := parseValue(vals[0])
	if !ok {
		return nil, false
	}
	k := c.BVBig(bv, t.sort.W)
	if !k.isConst || ex.feasible(c.Not(c.Eq(t, k))) != Unsat {
		return nil, false
	}
	return k, true
}

func registerBytes(e *Engine) {
	e.reg("bytes.Index", func(ex *Exec, fn *ssa.Function, args []Value) (Value, *PanicV) {
		return ex.indexModel(ex.sliceRegion(args[0].(SliceV)), ex.sliceRegion(args[1].(SliceV))), nil
	})
	e.reg("bytes.IndexByte", func(ex *Exec, fn *ssa.Function, args []Value) (Value, *PanicV) {
		b := argTerm(ex, args[1])
		return ex.indexModel(ex.sliceRegion(args[0].(SliceV)), Region{ex.bvNode(b, 1, true), c64(ex.ctx, 0), c64(ex.ctx, 1)}), nil
	})
	e.reg("bytes.Equal", func(ex *Exec, fn *ssa.Function, args []Value) (Value, *PanicV) {
		return ex.regionEq(ex.sliceRegion(args[0].(SliceV)), ex.sliceRegion(args[1].(SliceV))), nil
	})
	e.reg("strings.Index", func(ex *Exec, fn *ssa.Function, args []Value) (Value, *PanicV) {
		return ex.indexModel(ex.stringRegion(args[0].(StringV)), ex.stringRegion(args[1].(StringV))), nil
	})
	e.reg("strings.IndexByte", func(ex *Exec, fn *ssa.Function, args []Value) (Value, *PanicV) {
		b := argTerm(ex, args[1])
		return ex.indexModel(ex.stringRegion(args[0].(StringV)), Region{ex.bvNode(b, 1, true), c64(ex.ctx, 0), c64(ex.ctx, 1)}), nil
	})
	e.reg("internal/bytealg.IndexByteString", func(ex *Exec, fn *ssa.Function, args []Value) (Value, *PanicV) {
		b := argTerm(ex, args[1])
		return ex.indexModel(ex.stringRegion(args[0].(StringV)), Region{ex.bvNode(b, 1, true), c64(ex.ctx, 0), c64(ex.ctx, 1)}), nil
	})
	e.reg("internal/bytealg.IndexByte", func(ex *Exec, fn *ssa.Function, args []Value) (Value, *PanicV) {
		b := argTerm(ex, args[1])
		return ex.indexModel(ex.sliceRegion(args[0].(SliceV)), Region{ex.bvNode(b, 1, true), c64(ex.ctx, 0), c64(ex.ctx, 1)}), nil
	})
	e.reg("internal/bytealg.IndexString", func(ex *Exec, fn *ssa.Function, args []Value) (Value, *PanicV) {
		return ex.indexModel(ex.stringRegion(args[0].(StringV)), ex.stringRegion(args[1].(StringV))), nil
	})
	e.reg("internal/bytealg.Index", func(ex *Exec, fn *ssa.Function, args []Value) (Value, *PanicV) {
		return ex.indexModel(ex.sliceRegion(args[0].(SliceV)), ex.sliceRegion(args[1].(SliceV))), nil
	})
	e.reg("(*crypto/rand.reader).Read", func(ex *Exec, fn *ssa.Function, args []Value) (Value, *PanicV) {
		s := args[1].(SliceV)
		if isZero(s.len) {
			return TupleV{s.len, nilErr()}, nil
		}
		node := ex.baseNode("rnd")
		ex.tape = append(ex.tape, Draw{Name: "rand_bytes", Kind: "bytes", Node: node, Len: s.len})
		ex.writeBytes(s, c64(ex.ctx, 0), Region{node, c64(ex.ctx, 0), s.len}, s.len)
		return TupleV{s.len, nilErr()}, nil
	})
}
