//go:build verif

package replayfilter

import (
	"time"

	"gitlab.com/yawning/obfs4.git/internal/verifrt"
)

type refEntry struct {
	v int
	t int64
}

// refSet is the reference model: a set with expiry; an entry is forgotten once its age is
// >= ttl; when full the oldest entry is evicted; a time earlier than the oldest remembered
// entry empties the set.
type refSet struct {
	entries []refEntry // insertion order
	ttl     int64
	capa    int
}

func (r *refSet) testAndSet(now int64, v int) bool {
	// compaction, oldest first
	for len(r.entries) > 0 {
		e := r.entries[0]
		if len(r.entries) < r.capa {
			d := now - e.t
			if d < 0 {
				r.entries = nil
				break
			} else if d < r.ttl {
				break
			}
		}
		r.entries = r.entries[1:]
	}
	for _, e := range r.entries {
		if e.v == v {
			return true
		}
	}
	r.entries = append(r.entries, refEntry{v, now})
	return false
}

// VerifC11History: lemmas R1/R2/R4 – every history of up to k operations (value, time
// step) from an empty filter, in lockstep with the reference set.
func VerifC11History() {
	verifrt.Ideal() // SipHash digests of distinct values differ (collisions are documented false positives)
	ttl := int64(verifrt.IntRange("ttl_seconds", 1, 4))
	f, err := New(time.Duration(ttl) * time.Second)
	verifrt.Assume(err == nil)
	ref := &refSet{ttl: ttl, capa: verifrt.Param("capacity")}
	now := int64(1700000000)
	k := verifrt.Param("ops")
	minStep := verifrt.Param("min_step")
	for i := 0; i < k; i++ {
		v := verifrt.Pick("value", 0, verifrt.Param("values")-1)
		now += int64(verifrt.IntRange("time_step", minStep, 5))
		got := f.TestAndSet(time.Unix(now, 0), []byte{byte(v), 0x55})
		want := ref.testAndSet(now, v)
		verifrt.Assert(got == want, "TestAndSet answers 'seen before' exactly like the reference set with expiry")
		verifrt.Assert(f.fifo.Len() == len(ref.entries), "fifo length equals the reference set size")
		verifrt.Assert(len(f.filter) == f.fifo.Len(), "map and list stay in bijection (same size)")
		verifrt.Assert(f.fifo.Len() <= maxFilterSize, "never more than the capacity")
	}
	verifrt.Reach("end")
}

// VerifC11LockDiscipline: lemma R5 – on every path of every history the shared state of the
// filter (map, list, and every field written after construction) is only touched while the
// filter's mutex is held, the mutex is released on return, and TestAndSet never re-enters it.
// With R1/R2 (sequential semantics of the critical section) this gives a linearizable
// test-and-set for concurrent callers.
func VerifC11LockDiscipline() {
	verifrt.Ideal()
	ttl := int64(verifrt.IntRange("ttl_seconds", 1, 4))
	f, err := New(time.Duration(ttl) * time.Second)
	verifrt.Assume(err == nil)
	verifrt.Guard(f, &f.Mutex)
	verifrt.OnBlocked(func() {
		verifrt.Assert(false, "TestAndSet returns with the mutex released and never re-enters it (the next caller is not locked out)")
	})
	now := int64(1700000000)
	k := verifrt.Param("ops")
	for i := 0; i < k; i++ {
		v := verifrt.Pick("value", 0, verifrt.Param("values")-1)
		now += int64(verifrt.IntRange("time_step", -2, 5))
		f.TestAndSet(time.Unix(now, 0), []byte{byte(v), 0x55})
		// the mutex is free again: a second caller can enter (the model reports a self-deadlock
		// or an unlock of an unlocked mutex otherwise)
		f.Lock()
		n := f.fifo.Len()
		f.Unlock()
		verifrt.Assert(n >= 1, "the submitted value is remembered")
	}
	verifrt.Reach("end")
}
