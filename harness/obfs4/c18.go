//go:build verif

package obfs4

import (
	"strconv"

	"gitlab.torproject.org/tpo/anti-censorship/pluggable-transports/goptlib"

	"gitlab.com/yawning/obfs4.git/common/ntor"
	"gitlab.com/yawning/obfs4.git/internal/verifrt"
)

const vDir = "/state"

type vIdentity struct {
	nodeID, priv, pub, seed []byte
	iat                     int
	cert                    string
}

func identityOf(f any) vIdentity {
	sf := f.(*obfs4ServerFactory)
	cert, _ := sf.Args().Get(certArg)
	return vIdentity{
		nodeID: append([]byte{}, sf.nodeID[:]...),
		priv:   append([]byte{}, sf.identityKey.Private().Bytes()[:]...),
		pub:    append([]byte{}, sf.identityKey.Public().Bytes()[:]...),
		seed:   append([]byte{}, sf.lenSeed.Bytes()[:]...),
		iat:    sf.iatMode,
		cert:   cert,
	}
}

func sameIdentity(a, b vIdentity) bool {
	return verifrt.Equal(a.nodeID, b.nodeID) && verifrt.Equal(a.priv, b.priv) && verifrt.Equal(a.seed, b.seed) && a.cert == b.cert
}

func startArgs(iat int) *pt.Args {
	a := pt.Args{}
	if iat >= 0 {
		a.Add(iatArg, strconv.Itoa(iat))
	}
	return &a
}

// VerifC18Restart: lemmas F1/F2/F5 – restarts present the persisted identity; the
// advertised arguments parse back to exactly that node ID and public key (both formats).
func VerifC18Restart() {
	t := &Transport{}
	f1, err := t.ServerFactory(vDir, startArgs(-1))
	verifrt.Assert(err == nil, "first start generates an identity")
	id1 := identityOf(f1)
	verifrt.Assert(verifrt.FSExists(vDir+"/"+stateFile) && verifrt.FSPerm(vDir+"/"+stateFile) == 0o600, "state file written with mode 0600")
	override := verifrt.Pick("iat_override", -1, 2)
	f2, err := t.ServerFactory(vDir, startArgs(override))
	verifrt.Assert(err == nil, "second start succeeds")
	id2 := identityOf(f2)
	verifrt.Assert(sameIdentity(id1, id2), "same node ID, private key, seed and cert after a restart")
	want := id1.iat
	if override >= 0 {
		want = override
	}
	verifrt.Assert(id2.iat == want, "IAT mode = override or the persisted one")
	f3, err := t.ServerFactory(vDir, startArgs(-1))
	verifrt.Assert(err == nil, "third start succeeds")
	id3 := identityOf(f3)
	verifrt.Assert(sameIdentity(id1, id3) && id3.iat == want, "an overridden IAT mode is persisted")

	// F2: bridge line round trip, both formats
	cf := &obfs4ClientFactory{}
	ca, err := cf.ParseArgs(f3.Args())
	verifrt.Assert(err == nil, "the advertised arguments parse")
	c := ca.(*obfs4ClientArgs)
	verifrt.Assert(verifrt.Equal(c.nodeID[:], id1.nodeID) && verifrt.Equal(c.publicKey[:], id1.pub) && c.iatMode == want, "cert form yields exactly the node ID and public key")
	legacy := pt.Args{}
	legacy.Add(nodeIDArg, (*ntor.NodeID)(f3.(*obfs4ServerFactory).nodeID).Hex())
	legacy.Add(publicKeyArg, f3.(*obfs4ServerFactory).identityKey.Public().Hex())
	legacy.Add(iatArg, strconv.Itoa(want))
	ca, err = cf.ParseArgs(&legacy)
	verifrt.Assert(err == nil, "the legacy arguments parse")
	c = ca.(*obfs4ClientArgs)
	verifrt.Assert(verifrt.Equal(c.nodeID[:], id1.nodeID) && verifrt.Equal(c.publicKey[:], id1.pub), "legacy form yields exactly the node ID and public key")
	verifrt.Reach("end")
}

// VerifC18Crash: lemma F3 – a start killed at any file-system mutating step (including a
// torn write) never loses the persisted identity: the next start succeeds and presents it.
func VerifC18Crash() {
	t := &Transport{}
	f1, err := t.ServerFactory(vDir, startArgs(-1))
	verifrt.Assume(err == nil)
	id1 := identityOf(f1)
	n1 := verifrt.FSSteps()
	k := verifrt.Pick("crash_step", 0, verifrt.Param("max_steps"))
	torn := verifrt.Bool("torn_write")
	override := verifrt.Pick("iat_override", -1, 1)
	verifrt.CrashAt(n1+k, torn)
	crashed := verifrt.RunUntilCrash(func() { _, _ = t.ServerFactory(vDir, startArgs(override)) })
	verifrt.CrashAt(-1, false)
	if crashed {
		verifrt.Reach("crashed")
	} else {
		verifrt.Reach("second start completed")
	}
	f3, err := t.ServerFactory(vDir, startArgs(-1))
	verifrt.Assert(err == nil, "the start after a crash succeeds (the state file is never left unreadable)")
	if err == nil {
		verifrt.Assert(sameIdentity(id1, identityOf(f3)), "and presents the previously persisted identity")
	}
	verifrt.Reach("end")
}
