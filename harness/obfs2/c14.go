//go:build verif

package obfs2

import (
	"crypto/aes"
	"crypto/cipher"
	"crypto/sha256"
	"encoding/binary"

	"gitlab.com/yawning/obfs4.git/internal/verifrt"
)

// ---- reference obfs2 peer written from the specification ----

func refMAC(s string, x []byte) []byte {
	h := sha256.New()
	h.Write([]byte(s))
	h.Write(x)
	h.Write([]byte(s))
	return h.Sum(nil)
}

func refStream(label string, seed []byte) cipher.Stream {
	m := refMAC(label, seed)
	blk, _ := aes.NewCipher(m[:16])
	return cipher.NewCTR(blk, m[16:])
}

// refHello = SEED | E(padkey, BE32(0x2BF5CA7E) | BE32(padlen) | pad)
func refHello(padLabel string, seed, pad []byte, magic uint32, padLen uint32) []byte {
	hdr := make([]byte, 8)
	binary.BigEndian.PutUint32(hdr[0:], magic)
	binary.BigEndian.PutUint32(hdr[4:], padLen)
	body := append(hdr, pad...)
	refStream(padLabel, seed).XORKeyStream(body, body)
	return append(append([]byte{}, seed...), body...)
}

// VerifC14Handshake: lemmas O1..O5 – the real endpoint (either role) against the
// reference peer, every padding length class and segmentation; then data both ways.
func VerifC14Handshake() {
	initiator := verifrt.Bool("real_side_is_initiator")
	myPad, peerPad := initiatorPadString, responderPadString
	if !initiator {
		myPad, peerPad = responderPadString, initiatorPadString
	}
	peerSeed := verifrt.Bytes("peer_seed", seedLen)
	peerPadLen := []int{0, 1, 5, maxPadding}[verifrt.Pick("peer_padlen_class", 0, verifrt.Param("pad_classes")-1)]
	peerPadBytes := verifrt.Bytes("peer_pad", peerPadLen)
	hello := refHello(peerPad, peerSeed, peerPadBytes, magicValue, uint32(peerPadLen))

	// my own padding length: any value (the CSPRNG draw), case split on classes
	verifrt.OnIntn(func(n int) int {
		return []int{0, 1, n - 1}[verifrt.Pick("my_padlen_class", 0, 2)]
	})

	// data the peer sends right behind its handshake (coalesced or not)
	peerData := verifrt.Bytes("peer_data", 3)
	conn := verifrt.NewConn("c", nil)
	conn.MaxChunks = 1
	cuts := []int{0, seedLen, seedLen + 1, seedLen + hsLen - 1, seedLen + hsLen, seedLen + hsLen + 1, len(hello) - 1, len(hello), len(hello) + 1}
	cut := cuts[verifrt.Pick("cut", 0, len(cuts)-1)]

	// The peer's session stream depends on my seed, which the real endpoint has not chosen
	// yet: run the handshake first on the hello, then script the data.
	conn.In = append([]byte{}, hello...)
	if cut > 0 && cut < len(conn.In) {
		conn.Cuts = []int{cut}
	}
	var c *obfs2Conn
	var err error
	if initiator {
		c, err = newObfs2ClientConn(conn)
	} else {
		c, err = newObfs2ServerConn(conn)
	}
	verifrt.Assert(err == nil, "handshake with a conforming peer succeeds for every padding length and segmentation")

	// O1: what the real side sent
	out := conn.Out
	verifrt.Assert(len(out) >= seedLen+hsLen, "seed and header sent")
	mySeed := out[:seedLen]
	hdr := append([]byte{}, out[seedLen:seedLen+hsLen]...)
	refStream(myPad, mySeed).XORKeyStream(hdr, hdr)
	verifrt.Assert(binary.BigEndian.Uint32(hdr[0:]) == magicValue, "magic 0x2BF5CA7E under the role's pad key (SHA-256(s|seed|s) split 16/16)")
	padLen := int(binary.BigEndian.Uint32(hdr[4:]))
	verifrt.Assert(padLen <= maxPadding && len(out) == seedLen+hsLen+padLen, "padding length <= 8192 and exactly that many padding bytes")

	// O5 deadlines
	verifrt.Assert(len(conn.Deadlines) == 2 && !conn.Deadlines[0].T.IsZero() && conn.Deadlines[1].T.IsZero() && conn.Deadlines[0].Op < conn.WriteOps[0], "deadline armed before I/O and cleared")

	// O3/O4: session keys from INIT_SEED | RESP_SEED, initiator sends with the initiator stream
	var comb []byte
	if initiator {
		comb = append(append(comb, mySeed...), peerSeed...)
	} else {
		comb = append(append(comb, peerSeed...), mySeed...)
	}
	initS := refStream(initiatorKdfString, comb)
	respS := refStream(responderKdfString, comb)
	myTx, peerTx := initS, respS
	if !initiator {
		myTx, peerTx = respS, initS
	}
	// peer -> real
	enc := append([]byte{}, peerData...)
	peerTx.XORKeyStream(enc, enc)
	conn.In = append(conn.In, enc...)
	conn.Cuts = nil
	buf := make([]byte, 8)
	n, err := c.Read(buf)
	verifrt.Assert(err == nil && verifrt.Equal(buf[:n], peerData), "bytes the peer wrote are delivered intact")
	// real -> peer
	msg := verifrt.Bytes("my_data", 3)
	before := len(conn.Out)
	_, err = c.Write(msg)
	verifrt.Assert(err == nil, "write ok")
	wire := append([]byte{}, conn.Out[before:]...)
	myTx.XORKeyStream(wire, wire)
	verifrt.Assert(verifrt.Equal(wire, msg), "the reference peer decrypts exactly what was written (keys = MAC(label, INIT_SEED|RESP_SEED))")
	verifrt.Reach("end")
}

// VerifC14Reject: O2 – wrong magic or oversized padding length is rejected before anything is allocated for it.
func VerifC14Reject() {
	initiator := verifrt.Bool("real_side_is_initiator")
	peerPad := responderPadString
	if !initiator {
		peerPad = initiatorPadString
	}
	verifrt.OnIntn(func(n int) int { return 0 })
	peerSeed := verifrt.Bytes("peer_seed", seedLen)
	magic := verifrt.Uint32("magic")
	padLen := verifrt.Uint32("padlen")
	verifrt.Assume(magic != magicValue || padLen > maxPadding)
	hello := refHello(peerPad, peerSeed, nil, magic, padLen)
	// the peer keeps sending: enough bytes follow that a slightly oversized padding length
	// (8193 ...) could be satisfied if it were accepted
	conn := verifrt.NewConn("c", append(append([]byte{}, hello...), make([]byte, maxPadding+64)...))
	conn.Cuts = []int{len(hello)}
	conn.EOFAtEnd = true
	var err error
	if initiator {
		_, err = newObfs2ClientConn(conn)
	} else {
		_, err = newObfs2ServerConn(conn)
	}
	verifrt.Assert(err != nil, "wrong magic / padlen > 8192 is rejected")
	verifrt.Assert(conn.Rpos <= len(hello), "rejected on the header alone: none of the announced padding is consumed")
	verifrt.Reach("end")
}
