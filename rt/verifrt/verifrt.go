//go:build verif

// Package verifrt is the support package of the /verif harnesses. Under the symbolic
// engine (gosmt) every function here is intercepted and its body is never executed;
// compiled natively the functions replay a counterexample file (VERIF_REPLAY).
package verifrt

import (
	"time"
	cryptorand "crypto/rand"
	"encoding/binary"
	"encoding/hex"
	"encoding/json"
	"fmt"
	"math/big"
	"os"
	"strconv"
	"testing"
)

type draw struct {
	Name  string `json:"name"`
	Kind  string `json:"kind"`
	Value any    `json:"value"`
	Hex   string `json:"hex"`
	Len   int    `json:"len"`
	N     string `json:"n"`
}

type cex struct {
	Harness string `json:"harness"`
	Kind    string `json:"kind"`
	Label   string `json:"label"`
	Draws   []draw `json:"draws"`
	Extra   struct {
		Tape []draw `json:"tape"`
	} `json:"extra"`
}

var (
	loaded  *cex
	queues  map[string][]draw
	params  map[string]int
	tapeBuf []byte
	tapePos int
	verdict string
)

type stop struct{ msg string }

func load() {
	if loaded != nil {
		return
	}
	loaded = &cex{}
	queues = map[string][]draw{}
	params = map[string]int{}
	if p := os.Getenv("VERIF_PARAMS"); p != "" {
		_ = json.Unmarshal([]byte(p), &params)
	}
	path := os.Getenv("VERIF_REPLAY")
	if path == "" {
		return
	}
	b, err := os.ReadFile(path)
	if err != nil {
		panic(err)
	}
	if err := json.Unmarshal(b, loaded); err != nil {
		panic(err)
	}
	for _, d := range loaded.Draws {
		queues[d.Name] = append(queues[d.Name], d)
	}
	for _, d := range loaded.Extra.Tape {
		switch d.Kind {
		case "bytes":
			x, _ := hex.DecodeString(d.Hex)
			tapeBuf = append(tapeBuf, x...)
		case "intn":
			k, _ := new(big.Int).SetString(fmt.Sprint(d.Value), 10)
			n, _ := new(big.Int).SetString(d.N, 10)
			var v uint64
			if k != nil {
				v = k.Uint64()
			}
			if n != nil && n.IsInt64() && n.Int64() <= 1<<31-1 {
				v <<= 32
			}
			var b8 [8]byte
			binary.BigEndian.PutUint64(b8[:], v)
			tapeBuf = append(tapeBuf, b8[:]...)
		case "int63":
			k, _ := new(big.Int).SetString(fmt.Sprint(d.Value), 10)
			var b8 [8]byte
			if k != nil {
				binary.BigEndian.PutUint64(b8[:], k.Uint64())
			}
			tapeBuf = append(tapeBuf, b8[:]...)
		case "real":
			// not forced
			var b8 [8]byte
			tapeBuf = append(tapeBuf, b8[:]...)
		}
	}
	if len(tapeBuf) > 0 {
		cryptorand.Reader = tapeReader{}
	}
}

type tapeReader struct{}

func (tapeReader) Read(p []byte) (int, error) {
	for i := range p {
		if tapePos < len(tapeBuf) {
			p[i] = tapeBuf[tapePos]
			tapePos++
		} else {
			p[i] = byte(tapePos*131 + 7)
			tapePos++
		}
	}
	return len(p), nil
}

func next(name string) (draw, bool) {
	load()
	q := queues[name]
	if len(q) == 0 {
		return draw{}, false
	}
	queues[name] = q[1:]
	return q[0], true
}

func intVal(name string) int64 {
	d, ok := next(name)
	if !ok {
		return 0
	}
	switch v := d.Value.(type) {
	case string:
		if x, err := strconv.ParseInt(v, 10, 64); err == nil {
			return x
		}
		if x, err := strconv.ParseUint(v, 10, 64); err == nil {
			return int64(x)
		}
	case float64:
		return int64(v)
	case bool:
		if v {
			return 1
		}
	}
	return 0
}

func Int(name string) int       { return int(intVal(name)) }
func Int64(name string) int64   { return intVal(name) }
func Uint64(name string) uint64 { return uint64(intVal(name)) }
func Uint32(name string) uint32 { return uint32(intVal(name)) }
func Uint16(name string) uint16 { return uint16(intVal(name)) }
func Byte(name string) byte     { return byte(intVal(name)) }
func Bool(name string) bool {
	d, ok := next(name)
	if !ok {
		return false
	}
	b, _ := d.Value.(bool)
	return b
}

func IntRange(name string, lo, hi int) int {
	v := Int(name)
	if v < lo || v > hi {
		panic(stop{"replay diverged: draw " + name + " out of range"})
	}
	return v
}

// Pick is IntRange with a case split per value under the solver.
func Pick(name string, lo, hi int) int { return IntRange(name, lo, hi) }

func bytesVal(name string, n int) []byte {
	d, _ := next(name)
	x, _ := hex.DecodeString(d.Hex)
	out := make([]byte, n)
	copy(out, x)
	return out
}

func Bytes(name string, n int) []byte { return bytesVal(name, n) }

func BytesCap(name string, n, c int) []byte {
	out := make([]byte, n, c)
	copy(out, bytesVal(name, n))
	return out
}

func String(name string, n int) string { return string(bytesVal(name, n)) }

// StringIn: a string of length n whose bytes all lie in [lo,hi].
func StringIn(name string, n int, lo, hi byte) string { return string(bytesVal(name, n)) }

func Assume(c bool) {
	if !c {
		panic(stop{"ASSUME-FAILED (replay diverged from the symbolic path)"})
	}
}

func Assert(c bool, label string) {
	if !c {
		panic(stop{"CONFIRMED assert " + label})
	}
}

var envFn, blockedFn func()

func drawsLeft() bool {
	for _, q := range queues {
		if len(q) > 0 {
			return true
		}
	}
	return false
}

// Spawn runs f, the code under test that may block on channels. Under the solver f is
// simply called (the environment callback acts at its visible operations). Natively f
// runs in a goroutine while this goroutine plays the environment from the recorded draws;
// if f has not returned after the environment ran out of events the OnBlocked callback
// runs and the replay ends as BLOCKED.
func Spawn(f func()) {
	load()
	done := make(chan any, 1)
	go func() {
		defer func() { done <- recover() }()
		f()
	}()
	finish := func(r any) {
		if r != nil {
			panic(r)
		}
	}
	for i := 0; i < 256 && drawsLeft(); i++ {
		select {
		case r := <-done:
			finish(r)
			return
		default:
		}
		if envFn != nil {
			envFn()
		}
		time.Sleep(2 * time.Millisecond)
	}
	select {
	case r := <-done:
		finish(r)
		return
	case <-time.After(400 * time.Millisecond):
	}
	if blockedFn != nil {
		blockedFn()
	}
	panic(stop{"BLOCKED (code under test did not return)"})
}

// Block marks a point where the code under test would block for ever.
func Block(what string) { panic(stop{"BLOCKED " + what}) }

// BlockUntil marks a point where the caller cannot proceed until cond() holds. Under the
// engine's cooperative scheduler (harness option "coop") the goroutine is parked and resumed
// once the condition holds; without it the path ends like Block. Only called when Symbolic().
func BlockUntil(cond func() bool, what string) { panic(stop{"BLOCKED " + what}) }

// Guard declares the struct *obj shared state protected by the mutex mu (lock-discipline
// monitor of the engine, engine/guard.go); nothing natively.
func Guard(obj interface{}, mu interface{}) {}

// Role(k) declares that the following code runs as concurrent role k (0: none); the engine's
// footprint monitor (engine/guard.go) reports state written in one role and accessed in
// another. Nothing natively.
func Role(k int) {}

// BlockedReason: inside an OnBlocked callback under the engine, what the execution is blocked
// on ("read on <conn> with no more scripted data", "send on full channel", ...). Natively the
// replay only detects blocked reads, so it answers with that prefix.
func BlockedReason() string { return "read on" }

// Yield is a pre-emption point of the engine's cooperative scheduler; nothing natively.
func Yield(what string) {}

func Reach(label string)   {}
func Note(s string)        {}
func Witness(i int)        {}
func Ideal()               {}
func IdealAEAD()           {}
func OnBlocked(f func())   { blockedFn = f }
func Env(f func())         { envFn = f }
func Symbolic() bool       { return false }
func Exit()                { panic(stop{"EXIT"}) }
func And(a, b bool) bool   { return a && b }
func Or(a, b bool) bool    { return a || b }
func Implies(a, b bool) bool { return !a || b }
func IteInt(c bool, a, b int) int {
	if c {
		return a
	}
	return b
}

func Param(name string) int {
	load()
	return params[name]
}

func Equal(a, b []byte) bool {
	if len(a) != len(b) {
		return false
	}
	for i := range a {
		if a[i] != b[i] {
			return false
		}
	}
	return true
}

func EqualSk(a, b []byte) bool { return Equal(a, b) }

func MayPanic(f func()) (panicked bool) {
	defer func() {
		if r := recover(); r != nil {
			if s, ok := r.(stop); ok {
				panic(s)
			}
			panicked = true
		}
	}()
	f()
	return false
}

func PanicMsg(f func()) (msg string) {
	defer func() {
		if r := recover(); r != nil {
			if s, ok := r.(stop); ok {
				panic(s)
			}
			msg = fmt.Sprint(r)
		}
	}()
	f()
	return ""
}

// RunReplay runs the harness named by VERIF_HARNESS against the counterexample file.
func RunReplay(t *testing.T, hs map[string]func()) {
	load()
	name := os.Getenv("VERIF_HARNESS")
	f, ok := hs[name]
	if !ok {
		fmt.Println("VERIF-REPLAY: harness not found: " + name)
		return
	}
	func() {
		defer func() {
			if r := recover(); r != nil {
				if s, ok := r.(stop); ok {
					verdict = s.msg
					return
				}
				verdict = fmt.Sprintf("CONFIRMED panic %v", r)
			}
		}()
		f()
		verdict = "completed without failure"
	}()
	fmt.Println("VERIF-REPLAY: " + verdict)
}

// Ghost observers of the opaque distribution model (solver only).
func DistResets(d any) int      { return 0 }
func DistLastSeed(d any) []byte { return nil }

// OnSample lets a harness choose the values the (opaque) length/IAT distributions return
// under the solver. Natively the real distributions are used.
func OnSample(f func(min, max int) int) {}

// SetClock freezes time.Now at the given Unix time under the solver (natively the real
// clock runs). OnIntn lets a harness choose the results of the CSPRNG-backed Intn under
// the solver (natively they come from the recorded tape).
func SetClock(unix int64)     {}
func OnIntn(f func(n int) int) {}

// OnRandBytes lets a harness supply the bytes csrand.Bytes returns under the solver
// (natively they come from the recorded tape).
func OnRandBytes(f func(n int) []byte) {}

// File-system model interface (solver only; natively the real file system is used and
// no crash can be injected).
func FSSteps() int                  { return 0 }
func FSExists(path string) bool     { _, err := os.Stat(path); return err == nil }
func FSPerm(path string) int        { return 0o600 }
func CrashAt(step int, torn bool)   {}
func RunUntilCrash(f func()) bool   { f(); return false }

// Real: a symbolic float64 treated as a real number by the solver.
func Real(name string) float64 {
	d, ok := next(name)
	if !ok {
		return 0.5
	}
	if s, ok := d.Value.(string); ok {
		if f, err := strconv.ParseFloat(s, 64); err == nil {
			return f
		}
	}
	return 0.5
}

// ImpureCalls counts calls to the CSPRNG / clock models so far (solver only).
func ImpureCalls() int { return 0 }

// OnRoundTrip registers the scripted HTTP server of the meek_lite harness (solver only):
// it receives the X-Session-Id header and the request body and returns (status, response
// body, transport failure).
func OnRoundTrip(f func(sessionID string, body []byte) (int, []byte, bool)) {}
func Dump(name string, b []byte) {}

// Observers of the field/curve models (solver only).
func LastEll2Input() []byte          { return nil }
func LastPointXY() ([]byte, []byte) { return nil, nil }
