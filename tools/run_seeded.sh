#!/bin/bash
# usage: run_seeded.sh <seeded-dir> [tier] [extra check args]  – applies the patch to /repo, runs the property's check, reverts.
d=$(realpath $1); tier=${2:-quick}; shift; shift
prop=$(python3 -c "import json;print(json.load(open('$d/meta.json'))['property'])")
cd /repo || exit 2
if [ -n "$(git status --porcelain)" ]; then echo "repo dirty"; exit 2; fi
git apply "$d/patch.diff" 2>/dev/null || git apply --3way "$d/patch.diff" 2>/dev/null || { echo "$prop: patch does not apply"; git reset -q; git checkout -q -- .; exit 3; }
if grep -rl '^<<<<<<<' --include=*.go . >/dev/null 2>&1; then echo "$prop: patch conflicts with the current tree"; git reset -q; git checkout -q -- .; exit 3; fi
git reset -q
cd /verif && timeout 1800 ./bin/check $prop $tier "$@" 2>&1 | grep -E "^(VIOLATION|INCONCLUSIVE|OK|KNOWN|counterexample)" | cut -c1-260
rc=${PIPESTATUS[0]}
git -C /repo checkout -q -- .
echo "seeded $(basename $d): check exit=$rc"
