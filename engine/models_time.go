package main

// time model, second resolution. A time.Time produced by the model has wall == 0 (no
// monotonic reading, nsec == 0) and ext == seconds since year 1, loc == nil (UTC); the
// real methods of time.Time that the repository uses are replaced by exact integer
// arithmetic on the seconds, with Go's saturation of Sub.
// time.Now() returns non-decreasing instants.

import (
	"math/big"

	"golang.org/x/tools/go/ssa"
)

const unixToInternal = 62135596800 // seconds from year 1 to 1970

func (ex *Exec) mkTime(sec *Term) Value { // sec = seconds since year 1
	c := ex.ctx
	return &StructV{[]Value{c64(c, 0), sec, Ptr{}}}
}

func (ex *Exec) timeSec(v Value) *Term {
	sv, ok := v.(*StructV)
	if !ok {
		ex.unsupported("time.Time value expected, got %T", v)
	}
	wall := sv.fields[0].(*Term)
	if !wall.isConst || wall.cv != 0 {
		ex.unsupported("time.Time with monotonic/nsec part (not produced by the model)")
	}
	return sv.fields[1].(*Term)
}

const nsPerSec = 1000000000
const maxDurSec = 9223372036 // floor(MaxInt64 / 1e9)

func registerTime(e *Engine) {
	e.reg("time.Now", func(ex *Exec, fn *ssa.Function, args []Value) (Value, *PanicV) {
		c := ex.ctx
		ex.noteImpure("time.Now")
		if fixed, ok := ex.st["fixedclock"].(*Term); ok {
			return ex.mkTime(c.Add(fixed, c64(c, unixToInternal))), nil
		}
		t := c.Fresh("now", BV(64))
		ex.recordDraw(Draw{Name: "time_now_unix", Kind: "int", Term: c.Sub(t, c64(c, unixToInternal)), Width: 64})
		lo := c64(c, unixToInternal+1_000_000_000) // 2001
		hi := c64(c, unixToInternal+4_000_000_000) // 2096
		ex.addAxiom(c.And(c.Sle(lo, t), c.Sle(t, hi)))
		if ex.clock != nil {
			ex.addAxiom(c.Sle(ex.clock, t))
		}
		ex.clock = t
		return ex.mkTime(t), nil
	})
	// verifrt.SetClock(unix): time.Now returns this instant from now on (-1: free-running again)
	e.reg(rtPkg+".SetClock", func(ex *Exec, fn *ssa.Function, args []Value) (Value, *PanicV) {
		t := argTerm(ex, args[0])
		if t.isConst && t.Int() < 0 {
			delete(ex.st, "fixedclock")
			return nil, nil
		}
		ex.st["fixedclock"] = t
		return nil, nil
	})
	e.reg("time.Unix", func(ex *Exec, fn *ssa.Function, args []Value) (Value, *PanicV) {
		c := ex.ctx
		sec, nsec := argTerm(ex, args[0]), argTerm(ex, args[1])
		if !nsec.isConst || nsec.cv != 0 {
			ex.unsupported("time.Unix with nsec != 0 (second resolution model)")
		}
		return ex.mkTime(c.Add(sec, c64(c, unixToInternal))), nil
	})
	e.reg("(time.Time).Unix", func(ex *Exec, fn *ssa.Function, args []Value) (Value, *PanicV) {
		return ex.ctx.Sub(ex.timeSec(args[0]), c64(ex.ctx, unixToInternal)), nil
	})
	e.reg("(time.Time).IsZero", func(ex *Exec, fn *ssa.Function, args []Value) (Value, *PanicV) {
		sv := args[0].(*StructV)
		w := sv.fields[0].(*Term)
		return ex.ctx.And(ex.ctx.Eq(w, c64(ex.ctx, 0)), ex.ctx.Eq(sv.fields[1].(*Term), c64(ex.ctx, 0))), nil
	})
	e.reg("(time.Time).After", func(ex *Exec, fn *ssa.Function, args []Value) (Value, *PanicV) {
		return ex.ctx.Slt(ex.timeSec(args[1]), ex.timeSec(args[0])), nil
	})
	e.reg("(time.Time).Before", func(ex *Exec, fn *ssa.Function, args []Value) (Value, *PanicV) {
		return ex.ctx.Slt(ex.timeSec(args[0]), ex.timeSec(args[1])), nil
	})
	e.reg("(time.Time).Equal", func(ex *Exec, fn *ssa.Function, args []Value) (Value, *PanicV) {
		return ex.ctx.Eq(ex.timeSec(args[0]), ex.timeSec(args[1])), nil
	})
	e.reg("(time.Time).Add", func(ex *Exec, fn *ssa.Function, args []Value) (Value, *PanicV) {
		c := ex.ctx
		t := ex.timeSec(args[0])
		d := argTerm(ex, args[1])
		// whole seconds only: d == q*1e9 (exact for the durations the repository builds)
		var q *Term
		if d.isConst {
			if d.Int()%nsPerSec != 0 {
				ex.unsupported("time.Add of sub-second duration (second resolution model)")
			}
			q = c64(c, uint64(d.Int()/nsPerSec))
		} else {
			q = c.Fresh("dsec", BV(64))
			lim := c64(c, maxDurSec)
			ex.addAxiom(c.And(c.Sle(c.Neg(lim), q), c.Sle(q, lim), c.Eq(c.Mul(q, c64(c, nsPerSec)), d)))
			ex.eng.noteOnce("time.Add: symbolic durations are assumed to be whole seconds (holds for every duration the repository constructs)")
		}
		return ex.mkTime(c.Add(t, q)), nil
	})
	e.reg("(time.Time).Sub", func(ex *Exec, fn *ssa.Function, args []Value) (Value, *PanicV) {
		c := ex.ctx
		t, u := ex.timeSec(args[0]), ex.timeSec(args[1])
		ds := c.Sub(t, u) // both within +-2^40, no wrap
		lim := c64(c, maxDurSec)
		maxD := c.BVBig(new(big.Int).SetUint64(1<<63-1), 64)
		minD := c.BVBig(new(big.Int).SetUint64(1<<63), 64)
		d := c.Ite(c.Slt(lim, ds), maxD, c.Ite(c.Slt(ds, c.Neg(lim)), minD, c.Mul(ds, c64(c, nsPerSec))))
		return d, nil
	})
	e.reg("time.Since", func(ex *Exec, fn *ssa.Function, args []Value) (Value, *PanicV) {
		ex.unsupported("time.Since")
		return nil, nil
	})
	e.reg("time.After", func(ex *Exec, fn *ssa.Function, args []Value) (Value, *PanicV) {
		ex.objID++
		st := ex.eng.pkgs["time"].Type("Time").Type()
		return ChanV{&ChanObj{id: ex.objID, cap: 1, elem: st, name: "timer"}}, nil
	})
}
