//go:build verif

package uniformdh

import (
	"math/big"

	"gitlab.com/yawning/obfs4.git/internal/verifrt"
)

// VerifC13KeyGen: lemma U1 – for every 192-byte private input: the exponent is the input
// with bit 0 cleared, the public key is always exactly 192 bytes, X is sent when the input was
// even and p-X otherwise.
func VerifC13KeyGen() {
	raw := verifrt.Bytes("priv", Size)
	k, err := generateKey(raw)
	verifrt.Assert(err == nil, "key generation succeeds")
	pub, err := k.PublicKey.Bytes()
	verifrt.Assert(err == nil && len(pub) == Size, "public key is exactly 192 bytes (no FillBytes panic)")
	even := raw[Size-1]&1 == 0
	cleared := append([]byte{}, raw...)
	cleared[Size-1] &= 0xfe
	x := new(big.Int).Exp(gen, new(big.Int).SetBytes(cleared), modpGroup)
	sent := new(big.Int).SetBytes(pub)
	if even {
		verifrt.Reach("even")
		verifrt.Assert(sent.Cmp(x) == 0, "even private input: X = g^x is sent")
	} else {
		verifrt.Reach("odd")
		verifrt.Assert(sent.Cmp(new(big.Int).Sub(modpGroup, x)) == 0, "odd private input: p - X is sent")
	}
	pub[0] ^= 0xff
	pub2, _ := k.PublicKey.Bytes()
	verifrt.Assert(pub2[0] == pub[0]^0xff, "Bytes() returns a copy")
	verifrt.Reach("end")
}

// VerifC13Agree: lemma U2 – both parties derive the same 192-byte secret whichever of
// X / p-X each sent.
func VerifC13Agree() {
	a, err := generateKey(verifrt.Bytes("privA", Size))
	verifrt.Assume(err == nil)
	b, err := generateKey(verifrt.Bytes("privB", Size))
	verifrt.Assume(err == nil)
	pa, _ := a.PublicKey.Bytes()
	pb, _ := b.PublicKey.Bytes()
	var peerA, peerB PublicKey
	verifrt.Assert(peerA.SetBytes(pa) == nil && peerB.SetBytes(pb) == nil, "192-byte keys are accepted")
	sA, err := Handshake(b, &peerA)
	verifrt.Assert(err == nil && len(sA) == Size, "secret is 192 bytes")
	sB, err := Handshake(a, &peerB)
	verifrt.Assert(err == nil && len(sB) == Size, "secret is 192 bytes")
	verifrt.Assert(verifrt.Equal(sA, sB), "both parties derive the same shared secret for all four parity combinations")
	// ... and it is the specified encoding: the 1536-bit big-endian value, left padded with zeros
	ref := make([]byte, Size)
	new(big.Int).Exp(peerA.publicKey, b.privateKey, modpGroup).FillBytes(ref)
	verifrt.Assert(verifrt.Equal(sA, ref), "the shared secret is the fixed-width (192-byte, zero padded) big-endian value")
	verifrt.Reach("end")
}
