package main

import (
	"golang.org/x/tools/go/ssa"
)

func cmdSelfcheck(args []string) int { return selfcheck() }

// regionBV reads n bytes of a region as one big-endian bit-vector (byte 0 most significant).
func (ex *Exec) regionBV(r Region, n int) *Term {
	c := ex.ctx
	t := ex.regAt(r, c64(c, 0))
	for i := 1; i < n; i++ {
		t = c.Concat(t, ex.regAt(r, c64(c, uint64(i))))
	}
	return t
}

func (ex *Exec) storeArr(p Value, t *Term, n int) {
	ptr := p.(Ptr)
	ex.store(ptr, BytesV{ex.bvNode(t, n, true), c64(ex.ctx, uint64(n))})
}

type dhKey struct {
	scalar *Term
	pub    *Term
}

// registerDHKey adds the X25519 commutativity instances for a new keypair:
// X(s_i, pub_j) == X(s_j, pub_i) for all registered keypairs j (documented DH property;
// for Elligator "dirty" public keys it holds because X25519 clamps the scalar).
func (ex *Exec) registerDHKey(scalar, pub *Term) {
	c := ex.ctx
	keys, _ := ex.st["dhkeys"].([]dhKey)
	for _, k := range keys {
		if k.scalar == scalar {
			return
		}
	}
	zero := c.zero(256)
	for _, k := range keys {
		a, b := c.UF("x25519", BV(256), scalar, k.pub), c.UF("x25519", BV(256), k.scalar, pub)
		ex.addAxiom(c.Eq(a, b))
		// honestly generated public keys are not low-order points: the shared secret is not zero
		ex.addAxiom(c.Not(c.Eq(a, zero)))
	}
	ex.addAxiom(c.Not(c.Eq(c.UF("x25519", BV(256), scalar, pub), zero)))
	ex.st["dhkeys"] = append(keys, dhKey{scalar, pub})
}

func registerMore(e *Engine) {
	e.reg("golang.org/x/crypto/curve25519.ScalarMult", func(ex *Exec, fn *ssa.Function, args []Value) (Value, *PanicV) {
		c := ex.ctx
		s := ex.regionBV(ex.arrPtrRegion(args[1]), 32)
		p := ex.regionBV(ex.arrPtrRegion(args[2]), 32)
		// canonical form: when the point is (syntactically) the public key of a registered
		// keypair, both orders X(a, Pub(b)) / X(b, Pub(a)) are written X(lo, Pub(hi))
		keys, _ := ex.st["dhkeys"].([]dhKey)
		var mine, peer *dhKey
		for i := range keys {
			if keys[i].pub == p {
				peer = &keys[i]
			}
			if keys[i].scalar == s {
				mine = &keys[i]
			}
		}
		if mine != nil && peer != nil && mine.scalar.id > peer.scalar.id {
			ex.storeArr(args[0], c.UF("x25519", BV(256), peer.scalar, mine.pub), 32)
			return nil, nil
		}
		ex.storeArr(args[0], c.UF("x25519", BV(256), s, p), 32)
		return nil, nil
	})
	e.reg("golang.org/x/crypto/curve25519.ScalarBaseMult", func(ex *Exec, fn *ssa.Function, args []Value) (Value, *PanicV) {
		s := ex.regionBV(ex.arrPtrRegion(args[1]), 32)
		pub := ex.ctx.UF("x25519base", BV(256), s)
		ex.registerDHKey(s, pub)
		ex.storeArr(args[0], pub, 32)
		return nil, nil
	})
	ell := repoMod + "/internal/x25519ell2"
	e.reg(ell+".ScalarBaseMult", func(ex *Exec, fn *ssa.Function, args []Value) (Value, *PanicV) {
		c := ex.ctx
		s := ex.regionBV(ex.arrPtrRegion(args[2]), 32)
		tweak := argTerm(ex, args[3])
		ok := c.UF("ell2ok", BoolSort, s)
		if !ex.branch(ok) {
			return c.Bool(false), nil
		}
		pub := c.UF("ell2pub", BV(256), s)
		repr := c.UF("ell2repr", BV(256), s, tweak)
		// decode(representative) == public key (C07 is about the real code; here it is the contract)
		ex.addAxiom(c.Eq(c.UF("ell2dec", BV(256), c.BAnd(repr, ell2Mask(c))), pub))
		reprs, _ := ex.st["ell2reprs"].(map[*Term]*Term)
		if reprs == nil {
			reprs = map[*Term]*Term{}
			ex.st["ell2reprs"] = reprs
		}
		reprs[repr] = pub
		ex.registerDHKey(s, pub)
		ex.storeArr(args[0], pub, 32)
		ex.storeArr(args[1], repr, 32)
		return c.Bool(true), nil
	})
	e.reg(ell+".RepresentativeToPublicKey", func(ex *Exec, fn *ssa.Function, args []Value) (Value, *PanicV) {
		c := ex.ctx
		r := ex.regionBV(ex.arrPtrRegion(args[1]), 32)
		if reprs, ok := ex.st["ell2reprs"].(map[*Term]*Term); ok {
			if pub, ok := reprs[r]; ok {
				// the representative of a generated keypair decodes to its public key (contract of
				// ScalarBaseMult); written syntactically so that both handshake sides share terms
				ex.storeArr(args[0], pub, 32)
				return nil, nil
			}
		}
		ex.storeArr(args[0], c.UF("ell2dec", BV(256), c.BAnd(r, ell2Mask(c))), 32)
		return nil, nil
	})
}

// byte 31 (least significant byte of the big-endian reading) & 0x3f
func ell2Mask(c *Ctx) *Term {
	ones := c.BNot(c.zero(256))
	return c.BAnd(ones, c.BNot(c.BVConst(0xc0, 256)))
}
