package main

import (
	"fmt"
	"go/types"
	"math/big"
	"strconv"

	"golang.org/x/tools/go/ssa"
)

func mustRat(s string) *big.Rat {
	r, ok := new(big.Rat).SetString(s)
	if !ok {
		panic("bad rat " + s)
	}
	return r
}

func itoa(i int) string { return strconv.Itoa(i) }

// decimalString renders an integer term as a decimal string. Concrete values are exact;
// symbolic ones become an injective uninterpreted encoding (content = dec(x, i), length
// = declen(x) in 1..20); strconv.Atoi/ParseInt recognise the same encoding.
func (ex *Exec) decimalString(t *Term, signed bool) StringV {
	c := ex.ctx
	if t.isConst {
		if signed {
			return ex.mkString(strconv.FormatInt(t.Int(), 10))
		}
		return ex.mkString(t.BigVal().String())
	}
	x := ex.to64(t, signed)
	n := c.UF("declen", BV(64), x)
	ex.addAxiom(c.And(c.Ule(c64(c, 1), n), c.Ule(n, c64(c, 20))))
	sid := c.UF("decid", BV(64), x)
	// injectivity of the encoding, instantiated per pair of applications
	for _, prev := range ex.decApps() {
		ex.addAxiom(c.Or(c.Eq(prev, x), c.Not(c.Eq(c.UF("decid", BV(64), prev), sid))))
	}
	ex.st["decapps"] = append(ex.decApps(), x)
	node := ex.newNode(&BNode{kind: bFn, sid: sid})
	if ex.st["decnodes"] == nil {
		ex.st["decnodes"] = map[*BNode]*Term{}
	}
	ex.st["decnodes"].(map[*BNode]*Term)[node] = x
	return StringV{node, n}
}

func (ex *Exec) decApps() []*Term {
	l, _ := ex.st["decapps"].([]*Term)
	return l
}

// sprintf implements the subset of fmt verbs the repository uses; anything else
// yields an opaque string.
func (ex *Exec) sprintf(format StringV, args SliceV) (StringV, *IfaceV, *PanicV) {
	f, ok := ex.concreteString(format)
	if !ok {
		return ex.opaqueString("fmt"), nil, nil
	}
	var argv []Value
	if !args.IsNil() {
		n := ex.concretize(args.len, 64, "fmt args")
		off := ex.concretize(args.off, 64, "fmt args off")
		av := ex.load(args.base).(*ArrayV)
		argv = av.elems[off : off+n]
	}
	out := ex.mkString("")
	var wrapped *IfaceV
	ai := 0
	lit := ""
	flush := func() {
		if lit != "" {
			out = ex.strConcat(out, ex.mkString(lit))
			lit = ""
		}
	}
	for i := 0; i < len(f); i++ {
		if f[i] != '%' {
			lit += string(f[i])
			continue
		}
		i++
		if i >= len(f) {
			break
		}
		if f[i] == '%' {
			lit += "%"
			continue
		}
		flags := ""
		for i < len(f) && (f[i] == '0' || f[i] == '+' || f[i] == '-' || f[i] == '#' || f[i] == ' ' || (f[i] >= '1' && f[i] <= '9') || f[i] == '.') {
			flags += string(f[i])
			i++
		}
		if i >= len(f) {
			break
		}
		verb := f[i]
		flush()
		if ai >= len(argv) {
			out = ex.strConcat(out, ex.mkString("%!"+string(verb)+"(MISSING)"))
			continue
		}
		a := argv[ai].(IfaceV)
		ai++
		s, pan := ex.fmtArg(a, verb, flags)
		if pan != nil {
			return StringV{}, nil, pan
		}
		if verb == 'w' {
			aa := a
			wrapped = &aa
		}
		out = ex.strConcat(out, s)
	}
	flush()
	return out, wrapped, nil
}

func (ex *Exec) fmtArg(a IfaceV, verb byte, flags string) (StringV, *PanicV) {
	if a.typ == nil {
		return ex.mkString("<nil>"), nil
	}
	switch verb {
	case 'T':
		return ex.mkString(types.TypeString(a.typ, func(p *types.Package) string { return p.Name() })), nil
	case 's', 'v', 'w', 'q':
		// error / Stringer first
		if verb != 'q' {
			if _, ok := a.typ.(*modelType); !ok {
				if fn := ex.lookupMethod(a.typ, "Error"); fn != nil {
					return ex.errorText(a)
				}
				if fn := ex.lookupMethod(a.typ, "String"); fn != nil && fn.Signature.Params().Len() == 0 {
					v, pan := ex.callFunction(fn, []Value{a.val}, nil)
					if pan != nil {
						return StringV{}, pan
					}
					if s, ok := v.(StringV); ok {
						return s, nil
					}
				}
			} else {
				return ex.errorText(a)
			}
		}
		switch x := a.val.(type) {
		case StringV:
			if verb == 'q' {
				return ex.strConcat(ex.strConcat(ex.mkString("\""), x), ex.mkString("\"")), nil
			}
			return x, nil
		case SliceV:
			if isByteSlice(a.typ) {
				r := ex.sliceRegion(x)
				return StringV{ex.shiftNode(r.node, r.off), r.n}, nil
			}
		case *Term:
			if isInteger(a.typ) && verb == 'v' {
				return ex.decimalString(x, isSigned(a.typ)), nil
			}
			if isBool(a.typ) && x.isConst {
				return ex.mkString(fmt.Sprint(x.cv == 1)), nil
			}
		}
	case 'd':
		if x, ok := a.val.(*Term); ok && isInteger(a.typ) {
			if flags == "" {
				return ex.decimalString(x, isSigned(a.typ)), nil
			}
			if x.isConst {
				return ex.mkString(fmt.Sprintf("%"+flags+"d", x.Int())), nil
			}
		}
	case 'x':
		if x, ok := a.val.(*Term); ok && isInteger(a.typ) && x.isConst {
			return ex.mkString(fmt.Sprintf("%"+flags+"x", x.BigVal())), nil
		}
	}
	return ex.opaqueString("fmtarg"), nil
}

func registerStrconv(e *Engine) {
	e.reg("strconv.FormatInt", func(ex *Exec, fn *ssa.Function, args []Value) (Value, *PanicV) {
		b := argTerm(ex, args[1])
		if !b.isConst || b.cv != 10 {
			ex.unsupported("strconv.FormatInt with base != 10")
		}
		return ex.decimalString(argTerm(ex, args[0]), true), nil
	})
	e.reg("strconv.Itoa", func(ex *Exec, fn *ssa.Function, args []Value) (Value, *PanicV) {
		return ex.decimalString(argTerm(ex, args[0]), true), nil
	})
	e.reg("strconv.Atoi", func(ex *Exec, fn *ssa.Function, args []Value) (Value, *PanicV) {
		c := ex.ctx
		s := args[0].(StringV)
		if str, ok := ex.concreteString(s); ok {
			v, err := strconv.Atoi(str)
			if err != nil {
				return TupleV{c64(c, 0), ex.errorString("strconv.Atoi: parsing " + strconv.Quote(str) + ": invalid syntax")}, nil
			}
			return TupleV{c64(c, uint64(int64(v))), nilErr()}, nil
		}
		if m, ok := ex.st["decnodes"].(map[*BNode]*Term); ok {
			if x, ok := m[s.node]; ok {
				return TupleV{x, nilErr()}, nil
			}
		}
		// arbitrary string: either a parse error or some integer (uninterpreted)
		okT := c.Fresh("atoi_ok", BoolSort)
		if ex.branch(okT) {
			v := c.Fresh("atoi", BV(64))
			return TupleV{v, nilErr()}, nil
		}
		return TupleV{c64(c, 0), ex.errorString("strconv.Atoi: invalid syntax")}, nil
	})
}
