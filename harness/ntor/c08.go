//go:build verif

package ntor

import (
	"bytes"
	"crypto/hmac"
	"crypto/sha256"

	"golang.org/x/crypto/curve25519"

	"gitlab.com/yawning/obfs4.git/internal/verifrt"
)

func vNodeID(name string) *NodeID {
	id, _ := NewNodeID(verifrt.Bytes(name, NodeIDLength))
	return id
}

func vPub(name string) *PublicKey {
	p, _ := NewPublicKey(verifrt.Bytes(name, PublicKeyLength))
	return p
}

// vKeypair builds a keypair from arbitrary private bytes through the real constructors.
func vKeypair(name string, elligator bool) *Keypair {
	kp, err := NewKeypair(elligator)
	verifrt.Assume(err == nil)
	return kp
}

// lowOrder lists the u-coordinates for which X25519 returns the all-zero string.
var lowOrder = []string{
	"0000000000000000000000000000000000000000000000000000000000000000",
	"0100000000000000000000000000000000000000000000000000000000000000",
	"e0eb7a7c3b41b8ae1656e3faf19fc46ada098deb9c32b1fd866205165f49b800",
	"5f9c95bca3508c24b1d0b1559c83ef5b04445cc4581c8e86d8224eddd09f1157",
	"ecffffffffffffffffffffffffffffffffffffffffffffffffffffffffffff7f",
	"edffffffffffffffffffffffffffffffffffffffffffffffffffffffffffff7f",
	"eeffffffffffffffffffffffffffffffffffffffffffffffffffffffffffff7f",
}

// pubCands: under the solver one arbitrary public key; natively (replay) the key of the
// counterexample plus every low-order point and an honest key – the uninterpreted DH
// value chosen by the solver cannot be forced on the real X25519, so the replay searches.
func pubCands(name string) []*PublicKey {
	out := []*PublicKey{vPub(name)}
	if verifrt.Symbolic() {
		return out
	}
	for _, h := range lowOrder {
		p, _ := PublicKeyFromHex(h)
		out = append(out, p)
	}
	kp, _ := NewKeypair(false)
	out = append(out, kp.Public())
	return out
}

func allZero(b []byte) bool {
	z := true
	for _, v := range b {
		z = verifrt.And(z, v == 0)
	}
	return z
}

// VerifC08IsZero: N4 core – constantTimeIsZero is 1 exactly for the all-zero string, for all 2^256 inputs.
func VerifC08IsZero() {
	x := verifrt.Bytes("x", SharedSecretLength)
	r := constantTimeIsZero(x)
	verifrt.Assert((r == 1) == allZero(x), "constantTimeIsZero(x)==1 iff x is all zero")
	verifrt.Assert(r == 0 || r == 1, "result is 0 or 1")
	verifrt.Reach("end")
}

// VerifC08ZeroServer: N4 – the server reports failure iff one of its two DH outputs is all-zero,
// for an arbitrary (possibly low-order / non-canonical) client public key.
func VerifC08ZeroServer() {
	server := vKeypair("y", true)
	ident := vKeypair("b", false)
	id := vNodeID("id")
	for _, clientPub := range pubCands("X") {
		ok, seed, auth := ServerHandshake(clientPub, server, ident, id)
		var e1, e2 [SharedSecretLength]byte
		curve25519.ScalarMult(&e1, server.private.Bytes(), clientPub.Bytes()) //nolint
		curve25519.ScalarMult(&e2, ident.private.Bytes(), clientPub.Bytes())  //nolint
		z := verifrt.Or(allZero(e1[:]), allZero(e2[:]))
		verifrt.Assert(ok == !z, "server status is false iff a DH output is all-zero")
		verifrt.Assert(seed != nil && auth != nil, "outputs are still computed (constant-time shape)")
	}
	verifrt.Reach("end")
}

// VerifC08ZeroClient: N4 – same for the client and arbitrary server / identity public keys.
func VerifC08ZeroClient() {
	client := vKeypair("x", true)
	id := vNodeID("id")
	for _, serverPub := range pubCands("Y") {
		for _, idPub := range pubCands("B") {
			ok, seed, auth := ClientHandshake(client, serverPub, idPub, id)
			var e1, e2 [SharedSecretLength]byte
			curve25519.ScalarMult(&e1, client.private.Bytes(), serverPub.Bytes()) //nolint
			curve25519.ScalarMult(&e2, client.private.Bytes(), idPub.Bytes())     //nolint
			z := verifrt.Or(allZero(e1[:]), allZero(e2[:]))
			verifrt.Assert(ok == !z, "client status is false iff a DH output is all-zero")
			verifrt.Assert(seed != nil && auth != nil, "outputs are still computed")
		}
	}
	verifrt.Reach("end")
}

// VerifC08Agree: N1 – client and server derive identical KEY_SEED and AUTH.
func VerifC08Agree() {
	client := vKeypair("x", true)
	server := vKeypair("y", true)
	ident := vKeypair("b", false)
	id := vNodeID("id")
	okS, seedS, authS := ServerHandshake(client.Public(), server, ident, id)
	okC, seedC, authC := ClientHandshake(client, server.Public(), ident.Public(), id)
	verifrt.Assert(okS == okC, "both sides agree on the status")
	verifrt.Assert(verifrt.Equal(seedS.Bytes()[:], seedC.Bytes()[:]), "KEY_SEED agrees")
	verifrt.Assert(verifrt.Equal(authS.Bytes()[:], authC.Bytes()[:]), "AUTH agrees")
	verifrt.Assert(CompareAuth(authS, authC.Bytes()[:]), "CompareAuth accepts the peer's AUTH")
	verifrt.Reach("end")
}

// refNtor is the deployed ntor variant written from the property text.
func refNtor(exp1, exp2 []byte, id *NodeID, b, x, y *PublicKey) (seed, auth []byte) {
	proto := []byte("ntor-curve25519-sha256-1")
	var suffix []byte
	suffix = append(suffix, b[:]...)
	suffix = append(suffix, b[:]...)
	suffix = append(suffix, x[:]...)
	suffix = append(suffix, y[:]...)
	suffix = append(suffix, proto...)
	suffix = append(suffix, id[:]...)
	var secretInput []byte
	secretInput = append(secretInput, exp1...)
	secretInput = append(secretInput, exp2...)
	secretInput = append(secretInput, suffix...)
	h := hmac.New(sha256.New, []byte("ntor-curve25519-sha256-1:key_extract"))
	h.Write(secretInput)
	seed = h.Sum(nil)
	h = hmac.New(sha256.New, []byte("ntor-curve25519-sha256-1:key_verify"))
	h.Write(secretInput)
	verify := h.Sum(nil)
	var authInput []byte
	authInput = append(authInput, verify...)
	authInput = append(authInput, suffix...)
	authInput = append(authInput, []byte("Server")...)
	h = hmac.New(sha256.New, []byte("ntor-curve25519-sha256-1:mac"))
	h.Write(authInput)
	auth = h.Sum(nil)
	return
}

// VerifC08Transcript: N2 – both sides compute exactly the deployed transcript.
func VerifC08Transcript() {
	client := vKeypair("x", true)
	server := vKeypair("y", true)
	ident := vKeypair("b", false)
	id := vNodeID("id")
	_, seedS, authS := ServerHandshake(client.Public(), server, ident, id)
	_, seedC, authC := ClientHandshake(client, server.Public(), ident.Public(), id)

	var e1, e2 [SharedSecretLength]byte
	curve25519.ScalarMult(&e1, server.private.Bytes(), client.public.Bytes()) //nolint  EXP(X,y)
	curve25519.ScalarMult(&e2, ident.private.Bytes(), client.public.Bytes())  //nolint  EXP(X,b)
	rs, ra := refNtor(e1[:], e2[:], id, ident.public, client.public, server.public)
	verifrt.Assert(verifrt.Equal(seedS.Bytes()[:], rs), "server KEY_SEED equals the reference transcript")
	verifrt.Assert(verifrt.Equal(authS.Bytes()[:], ra), "server AUTH equals the reference transcript")

	curve25519.ScalarMult(&e1, client.private.Bytes(), server.public.Bytes()) //nolint  EXP(Y,x)
	curve25519.ScalarMult(&e2, client.private.Bytes(), ident.public.Bytes())  //nolint  EXP(B,x)
	rs, ra = refNtor(e1[:], e2[:], id, ident.public, client.public, server.public)
	verifrt.Assert(verifrt.Equal(seedC.Bytes()[:], rs), "client KEY_SEED equals the reference transcript")
	verifrt.Assert(verifrt.Equal(authC.Bytes()[:], ra), "client AUTH equals the reference transcript")
	verifrt.Reach("end")
}

// VerifC08Binding: N3 – changing the node ID, identity key or an ephemeral key changes both outputs
// (ideal MAC: collision-free at the witness byte).
func VerifC08Binding() {
	verifrt.Ideal()
	client := vKeypair("x", true)
	server := vKeypair("y", true)
	ident := vKeypair("b", false)
	id := vNodeID("id")
	which := verifrt.IntRange("which", 0, 2)
	pos := verifrt.IntRange("pos", 0, 31)
	delta := verifrt.Byte("delta")
	verifrt.Assume(delta != 0)

	id2 := new(NodeID)
	*id2 = *id
	b2 := new(PublicKey)
	*b2 = *ident.public
	y2 := new(PublicKey)
	*y2 = *server.public
	var w int
	switch which {
	case 0:
		verifrt.Assume(pos < NodeIDLength)
		id2[pos] ^= delta
		w = 64 + 32*4 + 24 + pos
	case 1:
		b2[pos] ^= delta
		w = 64 + pos
	default:
		y2[pos] ^= delta
		w = 64 + 32*3 + pos
	}
	verifrt.Witness(w)      // position inside secret_input
	verifrt.Witness(w - 32) // position inside auth_input (verify | suffix) is w-64+32
	_, seed1, auth1 := ClientHandshake(client, server.public, ident.public, id)
	_, seed2, auth2 := ClientHandshake(client, y2, b2, id2)
	verifrt.Assert(!bytes.Equal(seed1.Bytes()[:], seed2.Bytes()[:]), "KEY_SEED depends on node ID, identity key and server ephemeral")
	verifrt.Assert(!bytes.Equal(auth1.Bytes()[:], auth2.Bytes()[:]), "AUTH depends on node ID, identity key and server ephemeral")
	verifrt.Reach("end")
}

// VerifC08CompareAuth: N5.
func VerifC08CompareAuth() {
	a := new(Auth)
	copy(a[:], verifrt.Bytes("a", AuthLength))
	n := verifrt.IntRange("n", 0, 40)
	b := verifrt.Bytes("b", n)
	eq := n == AuthLength
	if eq {
		eq = verifrt.Equal(a[:], b)
	}
	verifrt.Assert(CompareAuth(a, b) == eq, "CompareAuth is true iff lengths match and all 32 bytes are equal")
	verifrt.Reach("end")
}

// VerifC08Kdf: N6 – deterministic and prefix-consistent.
func VerifC08Kdf() {
	seed := verifrt.Bytes("seed", KeySeedLength)
	n1 := verifrt.IntRange("n1", 0, 255*32)
	n2 := verifrt.IntRange("n2", 0, 255*32)
	verifrt.Assume(n1 <= n2)
	a := Kdf(seed, n1)
	b := Kdf(seed, n2)
	verifrt.Assert(len(a) == n1 && len(b) == n2, "Kdf returns the requested number of bytes")
	verifrt.Assert(verifrt.EqualSk(a, b[:n1]), "Kdf output is prefix-consistent (and deterministic)")
	verifrt.Reach("end")
}
