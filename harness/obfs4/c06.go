//go:build verif

package obfs4

import (
	"crypto/hmac"
	"crypto/sha256"
	"encoding/binary"
	"io"
	"strconv"

	"github.com/dchest/siphash"
	"golang.org/x/crypto/hkdf"
	"golang.org/x/crypto/nacl/secretbox"

	"gitlab.com/yawning/obfs4.git/common/ntor"
	"gitlab.com/yawning/obfs4.git/internal/verifrt"
	"gitlab.com/yawning/obfs4.git/transports/obfs4/framing"
)

func refMark(b *ntor.PublicKey, id *ntor.NodeID, repr []byte) []byte {
	m := hmac.New(sha256.New, append(append([]byte{}, b[:]...), id[:]...))
	m.Write(repr)
	return m.Sum(nil)[:16]
}

func refMac(b *ntor.PublicKey, id *ntor.NodeID, msg []byte, hour int64) []byte {
	m := hmac.New(sha256.New, append(append([]byte{}, b[:]...), id[:]...))
	m.Write(msg)
	m.Write([]byte(strconv.FormatInt(hour, 10)))
	return m.Sum(nil)[:16]
}

// refOKM is the deployed key schedule: HKDF-SHA256(ikm = KEY_SEED, salt = t_key, info = m_expand), 144 bytes.
func refOKM(keySeed []byte) []byte {
	r := hkdf.New(sha256.New, keySeed, []byte("ntor-curve25519-sha256-1:key_extract"), []byte("ntor-curve25519-sha256-1:key_expand"))
	okm := make([]byte, 144)
	_, _ = io.ReadFull(r, okm)
	return okm
}

// refFirstFrame: frame number 1 of a direction keyed with the 72-byte block kb.
func refFirstFrame(kb []byte, pkt []byte) []byte {
	var boxKey [32]byte
	copy(boxKey[:], kb[0:32])
	var nonce [24]byte
	copy(nonce[:16], kb[32:48])
	binary.BigEndian.PutUint64(nonce[16:], 1)
	h := siphash.New(kb[48:64])
	h.Write(kb[64:72])
	block := h.Sum(nil)
	box := secretbox.Seal(nil, pkt, &nonce, &boxKey)
	var hdr [2]byte
	binary.BigEndian.PutUint16(hdr[:], uint16(len(box))^binary.BigEndian.Uint16(block[:2]))
	return append(hdr[:], box...)
}

// VerifC06Handshake: lemmas W1/W2/W4 – the real client request and the real server
// response (with the inline seed frame) re-derived byte for byte from the deployed format.
func VerifC06Handshake() {
	verifrt.Ideal()
	verifrt.SetClock(vNow)
	padClasses()
	verifrt.OnSample(func(min, max int) int { return 0 })
	sf := vServerFactory()
	b, id := sf.identityKey.Public(), sf.nodeID
	clientKey, err := ntor.NewKeypair(true)
	verifrt.Assume(err == nil)
	hs := newClientHandshake(id, b, clientKey)
	blob, err := hs.generateHandshake()
	verifrt.Assume(err == nil)

	// W1: X' | P_C | M_C | MAC(X' | P_C | M_C | E), pad 77..8128
	pad := len(blob) - 64
	verifrt.Assert(pad >= 77 && pad <= 8128 && len(blob) <= maxHandshakeLength, "client padding length in 77..8128")
	xr := clientKey.Representative().Bytes()[:]
	verifrt.Assert(verifrt.Equal(blob[:32], xr), "request starts with the client's representative")
	verifrt.Assert(verifrt.Equal(blob[32+pad:48+pad], refMark(b, id, xr)), "M_C = HMAC-SHA256-128(B|ID, X')")
	verifrt.Assert(verifrt.Equal(blob[48+pad:], refMac(b, id, blob[:48+pad], vNow/3600)), "MAC_C = HMAC-SHA256-128(B|ID, X'|P_C|M_C|decimal hour)")

	sc := verifrt.NewConn("srv", blob)
	sc.MaxChunks = 1
	srv := vServerConn(sf, sc)
	serverKey, err := ntor.NewKeypair(true)
	verifrt.Assume(err == nil)
	err = srv.serverHandshake(sf, serverKey)
	verifrt.Assert(err == nil, "server accepts")

	// W2: one write: Y' | AUTH | P_S | M_S | MAC_S, followed by the 45-byte seed frame
	verifrt.Assert(len(sc.WriteSizes) == 1, "response and inline seed frame leave in a single write")
	out := sc.Out
	rl := len(out) - inlineSeedFrameLength
	spad := rl - 96
	verifrt.Assert(inlineSeedFrameLength == 45 && spad >= 0 && spad <= 8051 && len(out) <= maxHandshakeLength, "server padding 0..8051, response + seed frame <= 8192")
	yr := serverKey.Representative().Bytes()[:]
	verifrt.Assert(verifrt.Equal(out[:32], yr), "response starts with the server's representative")
	ok, seed, auth := ntor.ServerHandshake(clientKey.Public(), serverKey, sf.identityKey, id)
	verifrt.Assume(ok)
	verifrt.Assert(verifrt.Equal(out[32:64], auth.Bytes()[:]), "then AUTH")
	verifrt.Assert(verifrt.Equal(out[64+spad:80+spad], refMark(b, id, yr)), "M_S = HMAC-SHA256-128(B|ID, Y')")
	verifrt.Assert(verifrt.Equal(out[80+spad:rl], refMac(b, id, out[:80+spad], vNow/3600)), "MAC_S over Y'|AUTH|P_S|M_S|E'")

	// W4 + seed frame: okm split; server -> client block is okm[72:144]; seed frame is frame 1,
	// type 1, length 24, the bridge's seed, no padding
	okm := refOKM(seed.Bytes()[:])
	pkt := append([]byte{packetTypePrngSeed, 0, seedPacketPayloadLength}, sf.lenSeed.Bytes()[:]...)
	verifrt.Assert(verifrt.Equal(out[rl:], refFirstFrame(okm[72:144], pkt)), "inline seed frame = frame 1 under okm[72:144]: type 1 | BE16(24) | seed, unpadded")

	// client side: completes on this response, first client frame is frame 1 under okm[0:72]
	cc := verifrt.NewConn("cli", out)
	cc.MaxChunks = 1
	client := vClientConn(cc)
	err = client.clientHandshake(id, b, clientKey)
	verifrt.Assert(err == nil, "client completes")
	nreq := len(cc.Out)
	payload := verifrt.Bytes("payload", 2)
	_, err = client.Write(payload)
	verifrt.Assume(err == nil)
	first := cc.Out[nreq : nreq+headerLength+2]
	verifrt.Assert(verifrt.Equal(first, refFirstFrame(okm[0:72], append([]byte{packetTypePayload, 0, 2}, payload...))), "client's first frame = frame 1 under okm[0:72]: type 0 | BE16(len) | payload")
	verifrt.Reach("end")
	_ = framing.KeyLength
}
