//go:build verif

package obfs4

import (
	"bytes"
	"gitlab.com/yawning/obfs4.git/common/ntor"
	"gitlab.com/yawning/obfs4.git/internal/verifrt"
	"gitlab.com/yawning/obfs4.git/transports/obfs4/framing"
)

// frameLens recovers the frame boundaries of an honest wire for the harness's bookkeeping:
// the first frame carries the payload (if any), the rest is padding whose frame sizes follow
// from the total length (at most two padding frames: 1448 + rest).
func frameLens(sent, wire []byte) []int {
	var out []int
	rest := len(wire)
	for n := len(sent); n > 0; {
		k := n
		if k > maxPacketPayloadLength {
			k = maxPacketPayloadLength
		}
		out = append(out, headerLength+k)
		rest -= headerLength + k
		n -= k
	}
	if rest > framing.MaximumSegmentLength {
		out = append(out, framing.MaximumSegmentLength)
		rest -= framing.MaximumSegmentLength
	}
	if rest > 0 {
		out = append(out, rest)
	}
	return out
}

// VerifC01Stream: lemma L5 – what one end writes (one or two Write calls of symbolic
// sizes, any IAT mode, any padding targets) is exactly what the other end reads, for
// every segmentation of the wire into reads; nothing is left undecoded when Read would block.
func VerifC01Stream() {
	key := verifrt.Bytes("key", framing.KeyLength)
	iatMode := verifrt.Pick("iat_mode", 0, verifrt.Param("max_iat"))
	wire := verifrt.NewConn("wire", nil)
	tx := vEndpoint(wire, true, iatMode, key, key)

	maxLen := verifrt.Param("max_write")
	nWrites := verifrt.Param("writes")
	var sent []byte
	// Padding targets: chosen relative to the burst so that every class of the padding
	// arithmetic occurs (none, two frames with 1 / 21 bytes needed, one frame with 22 /
	// 1447 bytes needed); lemma B1 (C09) covers all (tail,target) pairs of the arithmetic itself.
	burstTail := 0
	paranoidLen := 0
	if iatMode == iatParanoid {
		// paranoid mode samples once per network write: one fixed sampled length per path
		// (C09/B3 covers arbitrary sample sequences on the sending side)
		paranoidLen = []int{framing.MaximumSegmentLength, 536, 0}[verifrt.Pick("paranoid_sample", 0, 2)]
	}
	iatSample := verifrt.IntRange("iat_sample", 0, maxIATDelay) // the delay does not influence the data path
	verifrt.OnSample(func(min, max int) int {
		if max != framing.MaximumSegmentLength {
			return iatSample
		}
		if iatMode == iatParanoid {
			return paranoidLen
		}
		deltas := []int{0, 1, headerLength, headerLength + 1, framing.MaximumSegmentLength - 1}
		d := deltas[verifrt.Pick("pad_class", 0, len(deltas)-1)]
		return (burstTail + d) % framing.MaximumSegmentLength
	})
	for w := 0; w < nWrites; w++ {
		// case split over representative write sizes (frame boundaries are concrete on each
		// path): empty, tiny, exactly one maximal packet, one byte more (two payload frames), ...
		sizes := []int{0, 1, maxPacketPayloadLength, maxPacketPayloadLength + 1, 2, 2*maxPacketPayloadLength + 1}
		n := sizes[verifrt.Pick("write_size_class", 0, maxLen)]
		burstTail = 0
		for k := n; k > 0; k -= maxPacketPayloadLength {
			if k > maxPacketPayloadLength {
				continue
			}
			burstTail = (k + headerLength) % framing.MaximumSegmentLength
		}
		p := verifrt.Bytes("payload", n)
		k, err := tx.Write(p)
		verifrt.Assert(err == nil && k == n, "Write accepts all bytes")
		sent = append(sent, p...)
	}
	for _, sz := range wire.WriteSizes {
		verifrt.Assert(sz <= framing.MaximumSegmentLength || iatMode == iatNone, "IAT-mode writes never exceed 1448 bytes")
	}

	rxc := verifrt.NewConn("rx", wire.Out)
	// Segment boundaries: a case split over the positions around every frame boundary of the
	// wire (the inductive step for *every* position is lemma L2); frameEnds is read off the
	// sender's writes to its frame buffer.
	total := len(wire.Out)
	rxc.MaxChunks = 1 // without a cut the whole burst arrives in one read
	var cand []int
	cand = append(cand, 1, 2, 3, total)
	pos := 0
	for _, fl := range frameLens(sent, wire.Out) {
		pos += fl
		cand = append(cand, pos-1, pos, pos+1, pos+2, pos+3)
	}
	for k := 0; k < verifrt.Param("cuts"); k++ {
		c := cand[verifrt.Pick("cut", 0, len(cand)-1)]
		if c > 0 && c < total {
			rxc.Cuts = append(rxc.Cuts, c)
		}
	}
	rx := vEndpoint(rxc, false, iatNone, key, key)
	var got []byte
	verifrt.OnBlocked(func() {
		// Read blocks: the wire is exhausted. Everything written must have been delivered.
		verifrt.Reach("drained")
		verifrt.Assert(rxc.Unread() == 0, "blocked only when the wire is exhausted")
		verifrt.Assert(verifrt.EqualSk(got, sent), "all bytes written were delivered before Read blocks (nothing stuck undecoded)")
	})
	buf := make([]byte, verifrt.Param("read_buf"))
	for i := 0; i < verifrt.Param("max_reads"); i++ {
		n, err := rx.Read(buf)
		verifrt.Assert(err == nil, "Read reports no error on an intact stream")
		got = append(got, buf[:n]...)
		verifrt.Assert(len(got) <= len(sent), "never more bytes than were written")
		verifrt.Assert(verifrt.EqualSk(got, sent[:len(got)]), "delivered bytes are a prefix of the bytes written")
	}
	verifrt.Reach("end")
}

// VerifC01HandshakeResidue: lemma L6 – data the server sends right behind its handshake
// response, arriving in the same segment (or split anywhere), is readable without any
// further network traffic.
func VerifC01HandshakeResidue() {
	verifrt.Ideal() // HMACs of different messages differ (else the +-1 hour MACs could collide)
	verifrt.SetClock(1700000000)
	padClasses()
	verifrt.OnSample(func(min, max int) int { return 0 })
	sf := vServerFactory()
	clientKey, err := ntor.NewKeypair(true)
	verifrt.Assume(err == nil)
	hs := newClientHandshake(sf.nodeID, sf.identityKey.Public(), clientKey)
	blob, err := hs.generateHandshake()
	verifrt.Assume(err == nil)

	sc := verifrt.NewConn("srv", blob)
	sc.MaxChunks = 1
	srv := vServerConn(sf, sc)
	serverKey, err := ntor.NewKeypair(true)
	verifrt.Assume(err == nil)
	err = srv.serverHandshake(sf, serverKey)
	verifrt.Assert(err == nil, "the real server accepts the real client's handshake")
	respLen := len(sc.Out)

	n := []int{2, 0, 1}[verifrt.Pick("data_len_class", 0, verifrt.Param("data_classes")-1)]
	data := verifrt.Bytes("data", n)
	if n > 0 {
		_, err = srv.Write(data)
		verifrt.Assume(err == nil)
	}

	// everything the server sent so far arrives before the client reads anything; the
	// network may cut it anywhere around the end of the handshake response
	cc := verifrt.NewConn("cli", sc.Out)
	cc.MaxChunks = 1
	cuts := []int{0, respLen, respLen - inlineSeedFrameLength, respLen + 1, respLen - 1, respLen - inlineSeedFrameLength + 1}
	if c := cuts[verifrt.Pick("cut", 0, verifrt.Param("cut_classes")-1)]; c > 0 && c < len(sc.Out) {
		cc.Cuts = []int{c}
	}
	client := vClientConn(cc)
	err = client.clientHandshake(sf.nodeID, sf.identityKey.Public(), clientKey)
	verifrt.Assert(err == nil, "the client completes the handshake")
	verifrt.Reach("handshake done")

	var got []byte
	verifrt.OnBlocked(func() {
		verifrt.Reach("read blocks")
		verifrt.Assert(cc.Unread() > 0 || len(got) == n, "Read blocks only when every byte the server wrote has been delivered (no further traffic needed)")
	})
	verifrt.Spawn(func() {
		buf := make([]byte, 64)
		for len(got) < n {
			k, err := client.Read(buf)
			verifrt.Assert(err == nil, "no error")
			got = append(got, buf[:k]...)
		}
	})
	verifrt.Assert(verifrt.Equal(got, data), "data that followed the handshake is delivered intact")
	verifrt.Reach("end")
}

// VerifC01Duplex: lemma L7 – one reader and one writer goroutine may use an endpoint at the
// same time: Read and Write (all IAT modes, including the PRNG-seed control packet that
// re-seeds the length distribution under its own mutex) touch disjoint mutable state. The
// engine's footprint monitor records every location of the pre-existing connection state
// that one role writes and the other reads or writes.
func VerifC01Duplex() {
	kTx := verifrt.Bytes("key_tx", framing.KeyLength)
	kRx := verifrt.Bytes("key_rx", framing.KeyLength)
	iatMode := verifrt.Pick("iat_mode", 0, 2)
	verifrt.OnSample(func(min, max int) int {
		if max != framing.MaximumSegmentLength {
			return 0
		}
		return []int{0, 700}[verifrt.Pick("len_sample", 0, 1)]
	})
	// the peer's bytes: a PRNG seed packet, then two payload packets with padding
	peer := vEndpoint(verifrt.NewConn("peer", nil), true, iatNone, kRx, kTx)
	var fb bytes.Buffer
	in1, in2 := verifrt.Bytes("in1", 3), verifrt.Bytes("in2", 2)
	verifrt.Assume(peer.makePacket(&fb, packetTypePrngSeed, verifrt.Bytes("seed", seedPacketPayloadLength), 0) == nil)
	verifrt.Assume(peer.makePacket(&fb, packetTypePayload, in1, 5) == nil)
	cut := fb.Len()
	verifrt.Assume(peer.makePacket(&fb, packetTypePayload, in2, 0) == nil)
	c := verifrt.NewConn("c", append([]byte{}, fb.Bytes()...))
	c.Cuts = []int{cut}
	ep := vEndpoint(c, false, iatMode, kTx, kRx)
	buf := make([]byte, 16)
	out1, out2 := verifrt.Bytes("out1", 3), verifrt.Bytes("out2", 1)

	verifrt.Role(1)
	_, err := ep.Write(out1)
	verifrt.Assert(err == nil, "write 1")
	verifrt.Role(2)
	n, err := ep.Read(buf)
	verifrt.Assert(err == nil && verifrt.Equal(buf[:n], in1), "read 1 delivers the peer's first payload")
	verifrt.Role(1)
	_, err = ep.Write(out2)
	verifrt.Assert(err == nil, "write 2")
	verifrt.Role(2)
	n, err = ep.Read(buf)
	verifrt.Assert(err == nil && verifrt.Equal(buf[:n], in2), "read 2 delivers the peer's second payload")
	verifrt.Role(0)
	verifrt.Reach("end")
}
