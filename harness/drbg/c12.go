//go:build verif

package drbg

import (
	"github.com/dchest/siphash"

	"gitlab.com/yawning/obfs4.git/internal/verifrt"
)

// VerifC12Drbg: lemma D6 – the generator is SipHash-2-4 in OFB mode as deployed: key =
// seed[0:16], IV = seed[16:24], block k = H(key, IV | b1 | ... | b(k-1)) with one running
// hash object, the block is the new OFB register; Int63 = BE64(block) with the top bit cleared.
func VerifC12Drbg() {
	raw := verifrt.Bytes("seed", SeedLength)
	seed, err := SeedFromBytes(raw)
	verifrt.Assert(err == nil, "24 bytes are a seed")
	d, err := NewHashDrbg(seed)
	verifrt.Assert(err == nil, "generator created")
	h := siphash.New(raw[:16])
	h.Write(raw[16:24])
	for k := 1; k <= 3; k++ {
		want := h.Sum(nil)
		got := d.NextBlock()
		verifrt.Assert(verifrt.Equal(got, want), "block k = SipHash-2-4(key, IV | b1 | ... | b(k-1)), running state")
		h.Write(want)
	}
	// Int63
	want := h.Sum(nil)
	v := d.Int63()
	var x uint64
	for _, b := range want {
		x = x<<8 | uint64(b)
	}
	verifrt.Assert(v == int64(x&(1<<63-1)), "Int63 = BE64(block) & (2^63-1)")
	// short / long seeds
	_, err = SeedFromBytes(verifrt.Bytes("short", 23))
	verifrt.Assert(err != nil, "fewer than 24 bytes are rejected")
	long := verifrt.Bytes("long", 32)
	s2, err := SeedFromBytes(long)
	verifrt.Assert(err == nil && verifrt.Equal(s2.Bytes()[:], long[:24]), "longer input is truncated to 24 bytes")
	verifrt.Reach("end")
}
