//go:build verif

package x25519ell2

import (
	"filippo.io/edwards25519/field"

	"gitlab.com/yawning/obfs4.git/internal/verifrt"
)

func vElem(name string) *field.Element {
	fe, err := new(field.Element).SetBytes(verifrt.Bytes(name, 32))
	verifrt.Assume(err == nil)
	return fe
}

// VerifC07Representative: lemmas G1/G3 – for every u, every tweak and every value of the
// (uninterpreted) field products: when a representative exists its two top bits are the
// tweak's, the low 254 bits are the canonical value of the smaller of {r, -r}, and decoding
// hands exactly that element to the Elligator map.
func VerifC07Representative() {
	u := vElem("u")
	tweak := verifrt.Byte("tweak")
	var repr [32]byte
	copy(repr[:], verifrt.Bytes("previous_content", 32))
	old := repr
	ok := uToRepresentative(&repr, u, tweak)
	if !ok {
		verifrt.Reach("no representative")
		verifrt.Assert(repr == old, "outputs untouched when no representative exists")
		return
	}
	verifrt.Reach("representative")
	verifrt.Assert(repr[31]&0xc0 == tweak&0xc0, "the two top bits are copied from the tweak")
	clamped := repr
	clamped[31] &= 63
	r, err := new(field.Element).SetBytes(clamped[:])
	verifrt.Assert(err == nil, "32 bytes")
	// r <= (p-1)/2  <=>  2r mod p is even
	dbl := new(field.Element).Add(r, r)
	verifrt.Assert(dbl.Bytes()[0]&1 == 0, "the encoded value is the smaller of {r, -r}, i.e. <= (p-1)/2 < 2^254")
	verifrt.Assert(verifrt.Equal(r.Bytes(), clamped[:]), "the low 254 bits are a canonical field element")
	// G3: decoding undoes the glue for every tweak
	var pub [32]byte
	RepresentativeToPublicKey(&pub, &repr)
	verifrt.Assert(verifrt.Equal(verifrt.LastEll2Input(), clamped[:]), "decoding hands exactly the encoded element to the Elligator 2 map (tweak bits ignored)")
	verifrt.Reach("end")
}

// VerifC07DecodeTotal: lemma G2 – decoding is defined for all 2^256 strings and ignores the two top bits.
func VerifC07DecodeTotal() {
	var a, b [32]byte
	copy(a[:], verifrt.Bytes("representative", 32))
	b = a
	b[31] ^= verifrt.Byte("top_bits") & 0xc0
	var pa, pb [32]byte
	RepresentativeToPublicKey(&pa, &a)
	ia := append([]byte{}, verifrt.LastEll2Input()...)
	RepresentativeToPublicKey(&pb, &b)
	ib := verifrt.LastEll2Input()
	verifrt.Assert(verifrt.Equal(ia, ib), "inputs differing only in the two top bits reach the map with identical arguments")
	verifrt.Assert(pa == pb, "and decode to the same public key")
	verifrt.Reach("end")
}

// ---- low-order points (concrete field arithmetic, folded exactly) ----

func feInt(x uint64) *field.Element { return mustFeFromUint64(x) }

// double an affine twisted Edwards point (a = -1): x3 = 2xy/(1+d x^2 y^2), y3 = (y^2+x^2)/(1-d x^2 y^2)
func edDouble(x, y, d *field.Element) (*field.Element, *field.Element) {
	xx := new(field.Element).Square(x)
	yy := new(field.Element).Square(y)
	dxy := new(field.Element).Multiply(d, new(field.Element).Multiply(xx, yy))
	one := feInt(1)
	xn := new(field.Element).Multiply(x, y)
	xn.Add(xn, xn)
	xd := new(field.Element).Add(one, dxy)
	yn := new(field.Element).Add(yy, xx)
	yd := new(field.Element).Subtract(one, dxy)
	x3 := new(field.Element).Multiply(xn, new(field.Element).Invert(xd))
	y3 := new(field.Element).Multiply(yn, new(field.Element).Invert(yd))
	return x3, y3
}

// VerifC07LowOrderPoints: lemma G5 – the point that scalarBaseMultDirty adds for each
// value of the low three private key bits: the eight (x,y) pairs are pairwise distinct, lie
// on the curve and have order dividing 8, i.e. they are exactly the 8-torsion points, so the
// generated public keys fall into all eight cosets.
func VerifC07LowOrderPoints() {
	// d = -121665/121666
	d := new(field.Element).Multiply(new(field.Element).Negate(feInt(121665)), new(field.Element).Invert(feInt(121666)))
	var xs, ys [8][]byte
	for cofactor := 0; cofactor < 8; cofactor++ {
		var priv [32]byte
		copy(priv[:], verifrt.Bytes("private_key", 32))
		priv[0] = byte(cofactor) | byte(verifrt.Pick("high_bits", 0, 1))<<6
		_ = scalarBaseMultDirty(&priv)
		xb, yb := verifrt.LastPointXY()
		xs[cofactor], ys[cofactor] = append([]byte{}, xb...), append([]byte{}, yb...)
		x, _ := new(field.Element).SetBytes(xb)
		y, _ := new(field.Element).SetBytes(yb)
		// on the curve: -x^2 + y^2 = 1 + d x^2 y^2
		xx := new(field.Element).Square(x)
		yy := new(field.Element).Square(y)
		lhs := new(field.Element).Subtract(yy, xx)
		rhs := new(field.Element).Add(feInt(1), new(field.Element).Multiply(d, new(field.Element).Multiply(xx, yy)))
		verifrt.Assert(lhs.Equal(rhs) == 1, "the added point is on the curve")
		// order divides 8: three doublings give the identity (0, 1)
		x3, y3 := x, y
		for k := 0; k < 3; k++ {
			x3, y3 = edDouble(x3, y3, d)
		}
		verifrt.Assert(x3.Equal(feInt(0)) == 1 && y3.Equal(feInt(1)) == 1, "the added point has order dividing 8")
	}
	for i := 0; i < 8; i++ {
		for j := i + 1; j < 8; j++ {
			verifrt.Assert(!(verifrt.Equal(xs[i], xs[j]) && verifrt.Equal(ys[i], ys[j])), "the eight low-order points are pairwise distinct (all eight cosets are reached)")
		}
	}
	verifrt.Reach("end")
}

// VerifC07ScalarBaseMult: lemma G4 – ScalarBaseMult reports false exactly when no
// representative exists, writes the public key as the bytes of the same u that was encoded,
// and leaves the outputs untouched otherwise.
func VerifC07ScalarBaseMult() {
	var priv, pub, repr [32]byte
	copy(priv[:], verifrt.Bytes("private_key", 32))
	copy(pub[:], verifrt.Bytes("old_pub", 32))
	copy(repr[:], verifrt.Bytes("old_repr", 32))
	oldPub, oldRepr := pub, repr
	tweak := verifrt.Byte("tweak")
	ok := ScalarBaseMult(&pub, &repr, &priv, tweak)
	u := scalarBaseMultDirty(&priv)
	var r2 [32]byte
	ok2 := uToRepresentative(&r2, u, tweak)
	verifrt.Assert(ok == ok2, "fails exactly when the u-coordinate has no representative")
	if ok {
		verifrt.Assert(verifrt.Equal(pub[:], u.Bytes()), "the public key is the canonical encoding of the dirty u-coordinate that was encoded")
		verifrt.Assert(repr == r2, "the representative is the one of that u")
	} else {
		verifrt.Assert(pub == oldPub && repr == oldRepr, "outputs untouched on failure")
	}
	verifrt.Reach("end")
}
