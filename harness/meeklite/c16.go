//go:build verif

package meeklite

import (
	"errors"
	"io"
	"net/http"
	gourl "net/url"
	"os"

	"gitlab.com/yawning/obfs4.git/internal/verifrt"
)

func vMeekConn() *meekConn {
	ca := &meekClientArgs{url: &gourl.URL{Scheme: "http", Host: "meek.invalid", Path: "/"}}
	return &meekConn{
		args:            ca,
		sessionID:       "0123456789abcdef0123456789abcdef",
		transport:       &http.Transport{},
		workerWrChan:    make(chan []byte, maxChanBacklog),
		workerRdChan:    make(chan []byte, maxChanBacklog),
		workerCloseChan: make(chan struct{}),
	}
}

// VerifC16Worker: lemmas M1..M5 – the real ioWorker run for K iterations while the
// application (environment callback, acting at every visible operation of the worker:
// select, channel operation, Gosched) writes, reads and closes under symbolic choice.
// Ghost state: W = accepted writes, S = request bodies, R = response bodies, D = read bytes.
func VerifC16Worker() {
	c := vMeekConn()
	var W, S, R, D []byte
	closed := false
	requests := 0
	inFlight := 0
	failed := false
	verifrt.OnRoundTrip(func(sid string, body []byte) (int, []byte, bool) {
		inFlight++
		verifrt.Assert(inFlight == 1, "at most one request in flight")
		requests++
		verifrt.Assert(sid == c.sessionID, "every request carries the connection's session identifier")
		verifrt.Assert(len(body) <= maxPayloadLength, "no request body exceeds 65536 bytes")
		S = append(S, body...)
		verifrt.Assert(len(S) <= len(W), "nothing is sent that was not written")
		verifrt.Assert(verifrt.EqualSk(S, W[:len(S)]), "request bodies, in order, are a prefix of the bytes written (no loss, duplication, reordering)")
		n := []int{0, 3, 1}[verifrt.Pick("response_len_class", 0, verifrt.Param("resp_classes")-1)]
		resp := verifrt.Bytes("response", n)
		fail := verifrt.Bool("transport_failure")
		if fail {
			failed = true
		} else {
			R = append(R, resp...)
		}
		inFlight--
		return 200, resp, fail
	})
	actions := 0
	maxActions := verifrt.Param("max_actions")
	verifrt.Env(func() {
		if actions >= maxActions {
			return
		}
		switch verifrt.IntRange("action", 0, 3) {
		case 1: // application writes
			actions++
			n := []int{1, maxPayloadLength + 1, maxPayloadLength, 2}[verifrt.Pick("write_len_class", 0, verifrt.Param("write_classes")-1)]
			b := verifrt.Bytes("write", n)
			if len(c.workerWrChan) == maxChanBacklog {
				return // the real Write would block here until the worker drains the queue
			}
			k, err := c.Write(b)
			if err == nil {
				verifrt.Assert(k == n, "Write accepts everything")
				W = append(W, b...)
				b[0] ^= 0xff // the application may reuse its buffer after Write returns
			} else {
				verifrt.Assert(errors.Is(err, io.ErrClosedPipe) && k == 0, "Write after Close fails with ErrClosedPipe")
				verifrt.Assert(closed || failed, "Write fails only after Close / worker termination")
			}
		case 2: // application reads what is available
			if c.rdBuf != nil || len(c.workerRdChan) > 0 {
				actions++
				p := make([]byte, []int{1, 4, 2}[verifrt.Pick("read_buf_class", 0, verifrt.Param("read_classes")-1)])
				k, err := c.Read(p)
				verifrt.Assert(err == nil, "Read of queued data succeeds")
				D = append(D, p[:k]...)
				verifrt.Assert(len(D) <= len(R) && verifrt.EqualSk(D, R[:len(D)]), "bytes read are a prefix of the concatenated response bodies")
			}
		case 3: // application closes
			actions++
			err := c.Close()
			if closed {
				verifrt.Assert(errors.Is(err, os.ErrClosed), "second Close returns os.ErrClosed")
			} else if failed {
				// the worker terminated on a transport error and closes the connection itself
				verifrt.Assert(err == nil || errors.Is(err, os.ErrClosed), "Close after worker termination")
			} else {
				verifrt.Assert(err == nil, "first Close succeeds")
			}
			closed = true
		}
	})
	c.ioWorker()
	actions = maxActions // the rest is the (single) application goroutine itself: no concurrent actions
	// the worker only returns after Close or a transport failure
	verifrt.Reach("worker returned")
	verifrt.Assert(closed || failed, "the worker stops only after Close or a round trip error")
	_, err := c.Write([]byte{1})
	verifrt.Assert(errors.Is(err, io.ErrClosedPipe), "after the worker stopped Write fails")
	// drain what was already queued, then Read fails
	for i := 0; i < maxChanBacklog+2; i++ {
		p := make([]byte, 8)
		k, err := c.Read(p)
		if err != nil {
			verifrt.Assert(errors.Is(err, io.ErrClosedPipe), "Read on the drained closed connection fails with ErrClosedPipe")
			break
		}
		D = append(D, p[:k]...)
	}
	verifrt.Assert(len(D) <= len(R), "not more read than was received")
	verifrt.Assert(verifrt.EqualSk(D, R[:len(D)]), "everything read is a prefix of the response bodies")
	verifrt.Reach("end")
}

// VerifC16Debug: translator validation of Read's carry-over buffer.
func VerifC16Debug() {
	c := vMeekConn()
	r1 := verifrt.Bytes("r1", 3)
	r2 := verifrt.Bytes("r2", 3)
	c.workerRdChan <- r1
	c.workerRdChan <- r2
	close(c.workerRdChan)
	var D []byte
	p := make([]byte, 1)
	k, err := c.Read(p)
	verifrt.Assert(err == nil && k == 1, "first read")
	D = append(D, p[:k]...)
	for i := 0; i < 5; i++ {
		q := make([]byte, 8)
		k, err := c.Read(q)
		if err != nil {
			break
		}
		D = append(D, q[:k]...)
	}
	R := append(append([]byte{}, r1...), r2...)
	verifrt.Assert(len(D) == 6, "all 6 bytes")
	verifrt.Assert(verifrt.Equal(D, R), "in order")
	verifrt.Reach("end")
}
